; ---------------------------------------------------------------------------
; base.smt2 — sorts and helper definitions shared by every obligation
; ---------------------------------------------------------------------------
(define-sort F64 () (_ FloatingPoint 11 53))
(declare-sort Tag 0)

; tenth(k) = the double nearest to k/10 (k is a numeral in every ground use)
(define-fun tenth ((k Int)) F64 ((_ to_fp 11 53) RNE (/ (to_real k) 10.0)))

; 64-bit machine integers <-> mathematical integers
(define-fun sbv2int ((b (_ BitVec 64))) Int
  (ite (bvslt b #x0000000000000000) (- (bv2nat b) 18446744073709551616) (bv2nat b)))
(define-fun int2sbv ((i Int)) (_ BitVec 64) ((_ int2bv 64) i))

; Go's math.Min (NaN if either is NaN; Min(-0,+0) = -0)
(define-fun go_min ((x F64) (y F64)) F64
  (ite (or (fp.isNaN x) (fp.isNaN y)) (_ NaN 11 53)
  (ite (and (fp.isZero x) (fp.isZero y)) (ite (or (fp.isNegative x) (fp.isNegative y)) (_ -zero 11 53) (_ +zero 11 53))
  (ite (fp.lt x y) x y))))

; exact helpers on reals
(define-fun minR ((a Real) (b Real)) Real (ite (<= a b) a b))
(define-fun ceil10 ((x Real)) Int (- (to_int (- (* 10.0 x)))))            ; ceil(10x): "round up to one decimal", score*10
(define-fun pow13R ((x Real)) Real (* x x x x x x x x x x x x x))
(define-fun pow15R ((x Real)) Real (* x x x x x x x x x x x x x x x))

; v3.1 Appendix A roundup, on exact reals, as score*10 (input >= 0)
(define-fun roundup_appA_k ((x Real)) Int
  (let ((i (to_int (+ (* x 100000.0) 0.5))))
    (ite (= (mod i 10000) 0) (div i 10000) (+ (div i 10000) 1))))

; "k/10 is a nearest tenth of x" (both neighbours allowed on an exact half)
(define-fun round1_ok ((x Real) (k Int)) Bool
  (and (<= (- (* 10.0 x) (to_real k)) 0.5) (<= (- (to_real k) (* 10.0 x)) 0.5)))
; r is (fp-equal to) a nearest tenth of x
(define-fun near1 ((r F64) (x Real)) Bool
  (let ((k1 (to_int (* 10.0 x))))
    (or (and (fp.eq r (tenth k1)) (round1_ok x k1))
        (and (fp.eq r (tenth (+ k1 1))) (round1_ok x (+ k1 1))))))

; strings.Split(s, "/") and strings.Split(s, ":")  (assumption A1: at least one piece)
(declare-fun split_slash (String) (Array Int String))
(declare-fun nsplit_slash (String) Int)
(declare-fun split_colon (String) (Array Int String))
(declare-fun nsplit_colon (String) Int)

; decimal rendering of k/10 with at most one decimal digit (0 <= k): "7", "7.5", "10"
(define-fun dec1 ((k Int)) String
  (str.++ (str.from_int (div k 10)) (ite (= (mod k 10) 0) "" (str.++ "." (str.from_int (mod k 10))))))

; r is (fp-equal to) a tenth k/10 with lo <= k <= hi
(define-fun ongrid ((r F64) (lo Int) (hi Int)) Bool
  (let ((k (to_int (+ (* 10.0 (fp.to_real r)) 0.5))))
    (and (not (fp.isNaN r)) (not (fp.isInfinite r)) (fp.eq r (tenth k)) (<= lo k) (<= k hi))))

; golang.org/x/text/language tags (assumption A7: tags compare with ==; English and Japanese are different values)
(declare-const Tag_English Tag)
(declare-const Tag_Japanese Tag)
(declare-const Tag_Und Tag)
(assert (distinct Tag_English Tag_Japanese Tag_Und))

; Go's math.Max (NaN if either is NaN; Max(-0,+0) = +0)
(define-fun go_max ((x F64) (y F64)) F64
  (ite (or (fp.isNaN x) (fp.isNaN y)) (_ NaN 11 53)
  (ite (and (fp.isZero x) (fp.isZero y)) (ite (and (fp.isNegative x) (fp.isNegative y)) (_ -zero 11 53) (_ +zero 11 53))
  (ite (fp.gt x y) x y))))

; ---- io.Reader / text/template / bytes.Buffer (assumption A6): uninterpreted, deterministic functions ----
(declare-sort Reader 0)
(declare-const nil_reader Reader)
(declare-fun mk_reader (String) Reader)                 ; a *bytes.Buffer holding exactly this text, seen as io.Reader
(declare-fun reader_content (Reader) String)            ; what io.Copy reads from the reader when it does not fail
(declare-fun reader_ok (Reader) Bool)                   ; the reader delivers its content without error
; (facts about mk_reader are assumed per instance where the executor creates one: content, non-nil, no read error)
(declare-fun tt_parse_ok (String) Bool)                 ; template.New(..).Parse(text) succeeds
(declare-fun tt_exec_ok (String Int) Bool)              ; Execute(buf, data) succeeds
(declare-fun tt_exec_out (String Int) String)           ; the text Execute writes when it succeeds
(declare-fun tt_exec_partial (String Int) String)       ; the text already written when Execute fails
