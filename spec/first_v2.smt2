; ---------------------------------------------------------------------------
; first_v2.smt2 — CVSS v2 equations ("A Complete Guide to the CVSS Version 2.0", section 3.2), exact.
; ---------------------------------------------------------------------------
(define-fun v2_impact ((c Int) (i Int) (a Int)) Real
  (* 10.41 (- 1.0 (* (- 1.0 (wR_v2_C c)) (- 1.0 (wR_v2_I i)) (- 1.0 (wR_v2_A a))))))
(define-fun v2_expl ((av Int) (ac Int) (au Int)) Real
  (* 20.0 (wR_v2_AV av) (wR_v2_AC ac) (wR_v2_Au au)))
(define-fun v2_f ((imp Real)) Real (ite (= imp 0.0) 0.0 1.176))
; the base equation before rounding, as a function of the (possibly adjusted) impact
(define-fun v2_base_eq ((imp Real) (ex Real)) Real
  (* (- (+ (* 0.6 imp) (* 0.4 ex)) 1.5) (v2_f imp)))
(define-fun v2_base_x ((av Int) (ac Int) (au Int) (c Int) (i Int) (a Int)) Real
  (v2_base_eq (v2_impact c i a) (v2_expl av ac au)))
; temporal equation on an already rounded score k/10
(define-fun v2_temporal_x ((k Int) (e Int) (rl Int) (rc Int)) Real
  (* (/ (to_real k) 10.0) (wR_v2_E e) (wR_v2_RL rl) (wR_v2_RC rc)))
; adjusted impact and adjusted base equation
(define-fun v2_adj_impact ((c Int) (i Int) (a Int) (cr Int) (ir Int) (ar Int)) Real
  (minR 10.0 (* 10.41 (- 1.0 (* (- 1.0 (* (wR_v2_C c) (wR_v2_CR cr))) (- 1.0 (* (wR_v2_I i) (wR_v2_IR ir))) (- 1.0 (* (wR_v2_A a) (wR_v2_AR ar))))))))
(define-fun v2_adjbase_x ((av Int) (ac Int) (au Int) (c Int) (i Int) (a Int) (cr Int) (ir Int) (ar Int)) Real
  (v2_base_eq (v2_adj_impact c i a cr ir ar) (v2_expl av ac au)))
; environmental equation on an already rounded adjusted temporal score k/10
(define-fun v2_env_x ((k Int) (cdp Int) (td Int)) Real
  (* (+ (/ (to_real k) 10.0) (* (- 10.0 (/ (to_real k) 10.0)) (wR_v2_CDP cdp))) (wR_v2_TD td)))
; severity bands of NVD for v2: 0 Low (0.0-3.9), 1 Medium (4.0-6.9), 2 High (7.0-10.0)
(define-fun v2_band_k ((k Int)) Int (ite (<= k 39) 0 (ite (<= k 69) 1 2)))
