; ---------------------------------------------------------------------------
; first_v3.smt2 — CVSS v3.0 (section 8) and v3.1 (section 7) equations, exact arithmetic.
; Written from the FIRST specification documents; the weight functions wR_v3_* and the
; value constants v3_<metric>_<code> are generated from spec/tables.json.
; All results are score*10 as Int.
; ---------------------------------------------------------------------------
(define-fun v3_changed ((s Int)) Bool (= s v3_S_C))

(define-fun v3_iss ((c Int) (i Int) (a Int)) Real
  (- 1.0 (* (- 1.0 (wR_v3_C c)) (- 1.0 (wR_v3_I i)) (- 1.0 (wR_v3_A a)))))

(define-fun v3_impact ((s Int) (iss Real)) Real
  (ite (v3_changed s)
       (- (* 7.52 (- iss 0.029)) (* 3.25 (pow15R (- iss 0.02))))
       (* 6.42 iss)))

(define-fun v3_expl ((av Int) (ac Int) (pr Int) (ui Int) (s Int)) Real
  (* 8.22 (wR_v3_AV av) (wR_v3_AC ac) (wR_v3_PR pr (v3_changed s)) (wR_v3_UI ui)))

; Base score (version-independent in 3.0 / 3.1)
(define-fun v3_base_k ((av Int) (ac Int) (pr Int) (ui Int) (s Int) (c Int) (i Int) (a Int)) Int
  (let ((imp (v3_impact s (v3_iss c i a))) (ex (v3_expl av ac pr ui s)))
    (ite (<= imp 0.0) 0
      (ite (v3_changed s) (ceil10 (minR (* 1.08 (+ imp ex)) 10.0))
                          (ceil10 (minR (+ imp ex) 10.0))))))

; the same with the v3.1 Appendix A integer algorithm (shown equal on the whole domain by a lemma family)
(define-fun v3_base_k_appA ((av Int) (ac Int) (pr Int) (ui Int) (s Int) (c Int) (i Int) (a Int)) Int
  (let ((imp (v3_impact s (v3_iss c i a))) (ex (v3_expl av ac pr ui s)))
    (ite (<= imp 0.0) 0
      (ite (v3_changed s) (roundup_appA_k (minR (* 1.08 (+ imp ex)) 10.0))
                          (roundup_appA_k (minR (+ imp ex) 10.0))))))

; Roundup(score * E * RL * RC) on an already rounded score k/10
(define-fun v3_outer_k ((k Int) (e Int) (rl Int) (rc Int)) Int
  (ceil10 (* (/ (to_real k) 10.0) (wR_v3_E e) (wR_v3_RL rl) (wR_v3_RC rc))))
(define-fun v3_outer_k_appA ((k Int) (e Int) (rl Int) (rc Int)) Int
  (roundup_appA_k (* (/ (to_real k) 10.0) (wR_v3_E e) (wR_v3_RL rl) (wR_v3_RC rc))))

(define-fun v3_temporal_k ((av Int) (ac Int) (pr Int) (ui Int) (s Int) (c Int) (i Int) (a Int) (e Int) (rl Int) (rc Int)) Int
  (v3_outer_k (v3_base_k av ac pr ui s c i a) e rl rc))

; Environmental: arguments are the *effective* (modified-or-base) metrics
(define-fun v3_miss ((c Int) (i Int) (a Int) (cr Int) (ir Int) (ar Int)) Real
  (minR (- 1.0 (* (- 1.0 (* (wR_v3_CR cr) (wR_v3_C c))) (- 1.0 (* (wR_v3_IR ir) (wR_v3_I i))) (- 1.0 (* (wR_v3_AR ar) (wR_v3_A a))))) 0.915))

(define-fun v3_mimpact ((ver Int) (s Int) (miss Real)) Real
  (ite (v3_changed s)
       (ite (= ver v3_VER_3_1)
            (- (* 7.52 (- miss 0.029)) (* 3.25 (pow13R (- (* miss 0.9731) 0.02))))
            (- (* 7.52 (- miss 0.029)) (* 3.25 (pow15R (- miss 0.02)))))
       (* 6.42 miss)))

(define-fun v3_env_impact ((ver Int) (s Int) (c Int) (i Int) (a Int) (cr Int) (ir Int) (ar Int)) Real
  (v3_mimpact ver s (v3_miss c i a cr ir ar)))

; inner Roundup(Minimum(...,10)); only meaningful when the modified impact is positive
(define-fun v3_env_inner_k ((ver Int) (av Int) (ac Int) (pr Int) (ui Int) (s Int) (c Int) (i Int) (a Int) (cr Int) (ir Int) (ar Int)) Int
  (let ((imp (v3_env_impact ver s c i a cr ir ar)) (ex (v3_expl av ac pr ui s)))
    (ite (v3_changed s) (ceil10 (minR (* 1.08 (+ imp ex)) 10.0))
                        (ceil10 (minR (+ imp ex) 10.0)))))
(define-fun v3_env_inner_k_appA ((ver Int) (av Int) (ac Int) (pr Int) (ui Int) (s Int) (c Int) (i Int) (a Int) (cr Int) (ir Int) (ar Int)) Int
  (let ((imp (v3_env_impact ver s c i a cr ir ar)) (ex (v3_expl av ac pr ui s)))
    (ite (v3_changed s) (roundup_appA_k (minR (* 1.08 (+ imp ex)) 10.0))
                        (roundup_appA_k (minR (+ imp ex) 10.0)))))

(define-fun v3_env_k ((ver Int) (av Int) (ac Int) (pr Int) (ui Int) (s Int) (c Int) (i Int) (a Int) (cr Int) (ir Int) (ar Int) (e Int) (rl Int) (rc Int)) Int
  (ite (<= (v3_env_impact ver s c i a cr ir ar) 0.0) 0
       (v3_outer_k (v3_env_inner_k ver av ac pr ui s c i a cr ir ar) e rl rc)))

; severity rating scale (v3 section 5): score*10 -> band 0..4 (None, Low, Medium, High, Critical)
(define-fun v3_band_k ((k Int)) Int
  (ite (<= k 0) 0 (ite (<= k 39) 1 (ite (<= k 69) 2 (ite (<= k 89) 3 4)))))
