#!/usr/bin/env python3
"""Runs a behaviour-preserving refactoring (dir with patch.diff, meta.json) against the checks of its area on a scratch copy
of /repo: the suite must pass and every check must stay silent (exit 0). usage: run_harmless.py <dir> ..."""
import json, os, subprocess, sys, time
ENV = dict(os.environ, GOFLAGS="-mod=mod", GOPROXY="off", GOSUMDB="off", GOTOOLCHAIN="local")
AREA = {"m31": ["C15", "C20", "C01", "C03"], "m32": ["C15", "C01", "C07", "C10"], "m33": ["C15", "C02", "C03", "C07", "C10", "C14"],
        "m34": ["C15", "C06", "C01", "C07"], "m35": ["C15", "C04", "C05", "C20", "C08"], "m36": ["C15", "C04", "C05", "C08", "C13"],
        "m37": ["C15", "C17", "C19"], "m38": ["C15", "C18", "C17"],
        "n51": ["C15", "C01", "C03", "C07", "C10"], "n52": ["C15", "C04", "C05", "C08", "C20"], "n53": ["C15", "C17", "C18", "C19"],
        "n54": ["C15", "C01", "C04", "C07", "C08", "C10", "C17"]}
def sh(cmd, cwd=None, timeout=3600):
    p = subprocess.run(cmd, shell=True, cwd=cwd, env=ENV, capture_output=True, text=True, timeout=timeout)
    return p.returncode, p.stdout + p.stderr
for d in sys.argv[1:]:
    d = d.rstrip("/")
    name = os.path.basename(d)
    area = name.split("_")[0]
    scr = "/tmp/harmless_repo_" + name
    sh(f"rm -rf {scr} && mkdir -p {scr} && git -C /repo archive HEAD | tar -x -C {scr} && cd {scr} && git init -q && git add -A && git -c user.email=a@b -c user.name=x commit -qm base")
    res = {"name": name, "checks": {}}
    rc, out = sh(f"git apply {d}/patch.diff", cwd=scr)
    res["applies"] = rc == 0
    if rc == 0:
        rc, out = sh("go build ./... && go test -vet=off -count=1 ./...", cwd=scr)
        res["suite_passes"] = rc == 0
        if rc == 0:
            checks = AREA.get(area, ["C15"])
            if os.environ.get("HARMLESS_MAX"):
                checks = checks[:int(os.environ["HARMLESS_MAX"])]
            for c in checks:
                t0 = time.time()
                rc, out = sh(f"bin/verif check {c} --no-evidence --repo {scr}", cwd="/verif")
                lines = [l for l in out.split("\n") if l.startswith("VIOLATION") or l.startswith("  ")]
                res["checks"][c] = {"exit": rc, "secs": round(time.time() - t0, 1), "first": lines[:4]}
    sh(f"rm -rf {scr}")
    json.dump(res, open(os.path.join(d, "result.json"), "w"), indent=1)
    bad = [c for c, r in res["checks"].items() if r["exit"] != 0]
    print(name, "applies" if res.get("applies") else "NO-APPLY", "suite-ok" if res.get("suite_passes") else "SUITE-FAIL", "ALARM " + ",".join(bad) if bad else "silent", flush=True)
