#!/usr/bin/env python3
"""Self-test of the machinery on a scratch copy of /repo: every patch under selftest/pass and selftest/harmless (behaviour-
preserving refactorings written by independent sub-agents) must leave all listed checks silent (exit 0), every patch under selftest/fail and seeded/*/patch.diff must make its property's check exit 1.
usage: selftest.py [pass|fail|seeded|harmless] [name-filter]"""
import json, os, subprocess, sys, time, glob
ENV = dict(os.environ, GOFLAGS="-mod=mod", GOPROXY="off", GOSUMDB="off", GOTOOLCHAIN="local")
def sh(cmd, cwd=None, timeout=3600):
    p = subprocess.run(cmd, shell=True, cwd=cwd, env=ENV, capture_output=True, text=True, timeout=timeout)
    return p.returncode, p.stdout + p.stderr
SCR = os.environ.get("SELFTEST_SCR", "/tmp/selftest_repo")
def fresh():
    sh(f"rm -rf {SCR} && mkdir -p {SCR} && git -C /repo archive HEAD | tar -x -C {SCR} && cd {SCR} && git init -q && git add -A && git -c user.email=a@b -c user.name=x commit -qm base")
PASS_CHECKS = {"rename_locals_base_score": ["C01", "C06"], "extract_helper_exploitability": ["C01", "C12"], "severity_if_chain": ["C06"], "reorder_map_literal": ["C20", "C07"],
               "rename_lasterr_values": ["C07", "C11"], "env_score_temps_v2": ["C05", "C13"], "geterror_if_chain": ["C12", "C01"], "names_rename_param": ["C18", "C17"], "report_reorder_literal": ["C17"],
               "getav_switch": ["C20", "C07"], "avvalue_switch": ["C20", "C01"], "encode_concat": ["C10"], "decodeone_hoist": ["C07", "C11"], "base_score_factor": ["C01"],
               "decode_restructure": ["C07", "C12"], "string_named": ["C10"], "roundup_consts": ["C01", "C06"], "v3_temporal_score_temps": ["C02"], "v3_temporal_encode_sprintf": ["C10"],
               "v2_temporal_isempty_demorgan": ["C08", "C04"], "v2_temporal_score_inline": ["C04"], "v2_decode_compare_first": ["C08"], "names_getname_restructure": ["C18"],
               "options_index_loop": ["C17"], "report_base_locals": ["C17"], "severity_reordered_cases": ["C06"],
               "receiver_rename_score": ["C01"], "param_rename_decodeone": ["C07"], "decode_index_loop": ["C07", "C09"], "score_err_inline": ["C01", "C12"], "unused_helper_added": ["C15"],
               "v2_env_decode_range_index": ["C08"], "env_score_single_return": ["C03", "C13"],
               "v2_score_min_if": ["C04", "C05"], "v3_base_score_min_if": ["C01", "C06"], "v2_base_encode_builder": ["C08", "C10"], "mpr_value_flat": ["C03", "C20"],
               "decode_errors_is": ["C07", "C11"], "v3_env_encode_sprintf_s": ["C10"],
               "names_valueof_restructure": ["C18", "C17"], "version_get_switch": ["C20"], "report_temporal_locals": ["C17"], "report_assign_fields": ["C17"],
               "v2_env_decodeone_restructure": ["C08", "C11"], "v2_env_encode_plus": ["C08"], "export_with_restructure": ["C19"],
               "unused_field_added": ["C15", "C09"], "function_moved_file": ["C06", "C12"], "buffer_by_value": ["C19"], "encode_fprintf_writebyte": ["C10"]}
AREA = {"m31": ["C15", "C20", "C01", "C03"], "m32": ["C15", "C01", "C07", "C10"], "m33": ["C15", "C02", "C03", "C07", "C10", "C14"],
        "m34": ["C15", "C06", "C01", "C07"], "m35": ["C15", "C04", "C05", "C20", "C08"], "m36": ["C15", "C04", "C05", "C08", "C13"],
        "m37": ["C15", "C17", "C19"], "m38": ["C15", "C18", "C17"],
        "n51": ["C15", "C01", "C03", "C07", "C10"], "n52": ["C15", "C04", "C05", "C08", "C20"], "n53": ["C15", "C17", "C18", "C19"],
        "n54": ["C15", "C01", "C04", "C07", "C08", "C10", "C17"]}
def run(kind, flt):
    results = []
    if kind in ("pass", "fail", "harmless"):
        items = sorted(glob.glob(f"/verif/selftest/{kind}/*.patch"))
    else:
        items = sorted(glob.glob("/verif/seeded/*/patch.diff"))
    for patch in items:
        name = os.path.basename(os.path.dirname(patch)) if kind == "seeded" else os.path.basename(patch)[:-6]
        if flt and flt not in name:
            continue
        fresh()
        rc, out = sh(f"git apply {patch}", cwd=SCR)
        if rc != 0:
            results.append((name, "PATCH-DOES-NOT-APPLY", out[-200:])); continue
        rc, out = sh("go build ./... && go test -vet=off -count=1 ./...", cwd=SCR)
        if rc != 0:
            results.append((name, "SUITE-FAILS", out[-300:])); continue
        if kind == "pass":
            checks = PASS_CHECKS.get(name, ["C12"])
        elif kind == "harmless":
            checks = AREA.get(name.split("_")[0], ["C15"])
        elif kind == "seeded":
            checks = [json.load(open(os.path.join(os.path.dirname(patch), "meta.json")))["property"]]
        else:
            checks = [name.split("_")[0]]
        for c in checks:
            t0 = time.time()
            rc, out = sh(f"bin/verif check {c} --no-evidence --repo {SCR}", cwd="/verif")
            ok = (rc == 0) if kind in ("pass", "harmless") else (rc == 1)
            viol = [l for l in out.split("\n") if l.startswith("VIOLATION")]
            conf = len([l for l in viol if "no-failing-input-found" not in l])
            results.append((name, c, "OK" if ok else "UNEXPECTED", f"exit={rc} violations={len(viol)} confirmed={conf} {time.time()-t0:.0f}s", (viol[:1] + [""])[0][:160]))
            print(results[-1], flush=True)
    sh(f"rm -rf {SCR}")
    bad = [r for r in results if "UNEXPECTED" in r or "SUITE-FAILS" in r or "PATCH-DOES-NOT-APPLY" in r]
    print(f"{kind}: {len(results)} runs, {len(bad)} unexpected")
    return len(bad)
if __name__ == "__main__":
    kind = sys.argv[1] if len(sys.argv) > 1 else "pass"
    flt = sys.argv[2] if len(sys.argv) > 2 else ""
    sys.exit(1 if run(kind, flt) else 0)
