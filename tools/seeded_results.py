#!/usr/bin/env python3
"""Writes /verif/seeded/RESULTS.md from the meta.json files of the seeded defects."""
import json, glob, os
rows = []
for d in sorted(glob.glob("/verif/seeded/C*_*")):
    mp = os.path.join(d, "meta.json")
    if not os.path.exists(mp):
        continue
    m = json.load(open(mp))
    name = os.path.basename(d)
    v = m.get("verified_by_me", {})
    valid = all(v.get(k) for k in ("applies", "suite_passes_with_patch", "demo_fails_with_patch", "demo_passes_without_patch")) if v else None
    for prop, c in sorted(m.get("check_results", {}).items()):
        rows.append((name, prop, m.get("what", "")[:150].replace("|", "/"), m.get("needs", "")[:140].replace("|", "/"), "yes" if valid else ("?" if valid is None else "NO"),
                     "DETECTED" if c["exit"] == 1 else "missed", c.get("violation_lines", 0), c.get("confirmed_replays", 0), (c.get("first") or [""])[0].replace("VIOLATION ", "")[:110], c.get("where", "")))
out = ["# Seeded defects (independent sub-agents) against the checks\n",
       "Each change compiles, passes the 87 pinned tests and comes with a demonstration test (demo_test.go) that fails with the change and passes without it; `confirmed by me` = re-checked here in a scratch worktree. `check` = exit status of the property's quick check with the patch applied; `confirmed replays` = VIOLATION lines whose replay produced a failing input on the real code.\n",
       "| defect | property | what was changed | needs | confirmed by me | check | violation lines (first 12) | confirmed replays | first violation |", "|---|---|---|---|---|---|---|---|---|"]
for r in rows:
    out.append("| %s | %s | %s | %s | %s | %s | %s | %s | `%s` |" % r[:9])
det = len([r for r in rows if r[5] == "DETECTED"])
out.append(f"\n{det} of {len(rows)} (defect, property) runs detected.\n")
open("/verif/seeded/RESULTS.md", "w").write("\n".join(out))
print(f"{det}/{len(rows)} detected")
