#!/usr/bin/env python3
"""Writes /verif/MANIFEST.json from the table below (kept in one place so that it stays valid and current)."""
import json, subprocess, os
V = "/verif"
ENV = "GOFLAGS=-mod=mod GOPROXY=off GOSUMDB=off GOTOOLCHAIN=local"
claimed = {
 "C01": ("proof", "Contract-based deductive proof on the real code: Base.Score, Base.GetError and the 8 base-metric Value/IsUnknown functions carry contracts; the universally quantified score postcondition is case-split over the finite enum domain into 5,184 ground Float64 obligations (one symbolic execution of the body, instances are applications of the resulting VC to numerals) plus symbolic obligations for all invalid inputs; spec = FIRST equations in exact rational arithmetic. Exhaustive over all v3.0/v3.1 base vectors, no sampling.",
         "Float64 bit-precise; assumes A5 (math.Pow oracle validated per run), A9 (no FMA), A10 (generator)", "5"),
 "C02": ("proof", "As C01 for Temporal.Score: callee Base.Score enters by its contract (grid postcondition), the temporal stage is proved for every rounded base score 0..100 x E x RL x RC (10,100 ground obligations) and composed with C01 by definition of the spec; Not-Defined neutrality and temporal <= base are part of the same postcondition.",
         "A5, A9, A10; composition lemma v3_temporal_compose discharged by the solver", "5"),
 "C03": ("proof", "Environmental.Score proved in two stages through a cut at the inner Roundup: 331,776 ground obligations (version x effective metrics x requirements; 'Not Defined takes the base value' is carried by the Modified*.Value contracts) + 10,100 for the outer stage; zero-impact cut-off, 0.915 cap and version polynomials are inside the spec function; composition lemma by unfolding.",
         "A5 (Pow tables, 69+69 entries validated per run), A9, A10", "5"),
 "C04": ("proof", "v2 Base.Score / Temporal.Score against the exact FIRST v2 equations with the property's tie rule (near1): 729 base + 10,302 temporal-stage ground obligations incl. -0.0; found the genuine defect repaired by the fix: commit (22 instances refuted before).",
         "A9, A10", "5"),
 "C05": ("proof", "v2 Environmental.Score in stages (adjusted base 46,656; adjusted temporal 12,200; CDP/TD 2x3,660; environmental group absent 10,200+102). 771 adjusted-base instances are refuted and listed as known findings (real vectors, replayed); every other instance is discharged and any unlisted failure is a violation.",
         "A9, A10; the claim excludes the 771 listed known findings (genuine defect, DESIGN.md 6.2)", "5"),
 "C06": ("proof", "Every Score() postcondition pins the result to a tenth-grid double with explicit range (446k ground obligations shared with C01-C05, using only the weak grid stage of the v2 adjusted base score so that C05's known finding does not enter); severity(score) has a symbolic contract over all doubles; each Severity() is proved to be the rating band of its own level's score for every grid value (replace families, cut-point obligation fails if another level's score is used); FormatFloat of the 101 grid doubles prints at most one decimal.",
         "A5 (FormatFloat oracle table from the real function), A9, A10", "5"),
 "C07": ("proof", "Each v3 Decode carries the postcondition (err == nil) <==> wf_v3_<level>(vector) for EVERY string (any number and content of tokens): loop invariant over the processed token prefix, decodeOne under a total case-analysis contract at each level (delegation to the lower level included), GetVersion/Get<Metric> against the specification's code tables; wf is the property's sentence over the pieces of strings.Split. Plus exact execution of every canonical vector with symbolic valid codes.",
         "A1 (contract of strings.Split), A2 (errs), A10", "5"),
 "C08": ("proof", "Each v2 Decode: accepted => the string IS the canonical concatenation of the valid decoded codes, groups all-or-nothing (postcondition for every string, loop invariant + Encode contract); canonical => accepted: every canonical vector of the level (4 shapes, symbolic valid codes, constructor-fresh and nil receiver) is executed exactly and accepted with those fields.",
         "A1, A2, A3 (Sprintf), A4 (Builder), A10", "5"),
 "C09": ("proof", "Decode postconditions pin every field (and the v3 version) to the parse of the value of the uniquely named token, defaults for unwritten v3 metrics, v2 group flags; order independence and 'X = omitted' follow from the form of the postcondition (meta step stated in the evidence).",
         "A1, A2, A10", "5"),
 "C10": ("proof", "Encode/String contracts give the exact canonical text; v2 encoding byte-identical to the input by Decode's postcondition; round trip through exact execution of the canonical text of symbolic valid field assignments (scenarios) for all six decoders.",
         "A1-A4, A10", "5"),
 "C11": ("proof", "Errors are modelled by their errors.Is match set (12-bit vector over the 11 sentinels); every return of the six decoders is proved to carry exactly one sentinel whose defect predicate (stated over the token list) holds, for every input string.",
         "A1, A2 (errs.Wrap keeps the match set, WithCause adds the cause's), A10", "5"),
 "C12": ("proof", "Unannotated safety obligations (nil dereference per hop, index/slice bounds, nil-map write) at every operation of every function of v2/metric and v3/metric under contract, under 'receiver nil or object invariant'; invariant established by constructors, preserved by all methods incl. failed Decode; Decode returns exactly one of object/error for every string; unknown/invalid state => error from GetError/Encode and score +0.0.",
         "A2 (library calls do not panic), A10; IsEmpty on a nil receiver is outside the property's observer list (contract requires non-nil, all internal call sites proved)", "5"),
 "C14": ("proof", "Accessor contracts (the embedded object itself), Decode postconditions for the embedded objects, functional and frame contracts of Score/Severity/Encode; composition is a meta step stated in the evidence.",
         "A1-A5, A9, A10", "5"),
 "C13": ("proof", "Neutrality and monotonicity as conjuncts of the temporal/environmental family postconditions (temporal with all Not Defined === base, temporal <= base, v2 TD:N => 0) plus spec-side lemma families (v3 environmental equations with all metrics Not Defined collapse to the temporal ones except scope-changed 3.1: 5,184 ground lemma instances; Modified X = base by the eff_ contracts).",
         "A5, A9, A10; rests on the C02/C03/C05 stage obligations but not on C05's refuted adjusted-base equation", "5"),
 "C15": ("proof", "Frame obligations ('modifies nothing', or the declared fields of the receiver's own objects for Decode/decodeOne) on every function under contract of the five packages, discharged per path and heap field; global frame G1 checked syntactically every run (no write to / escape of package-level state); constructors allocate fresh objects. Purity, determinism and history-freedom of all finite call sequences follow by induction with the frame as inductive step (meta step in the evidence).",
         "A1-A4, A6, A7, A10; client code mutating exported tables is outside the property", "5"),
 "C16": ("proof", "Sufficient condition decided deductively (same obligations as C15): all operations named in the property write only goroutine-owned memory and only read shared objects and tables, hence no data race and sequential equivalence by the Go memory model + determinism (meta argument, stated as such). Does not decide correctly synchronised shared mutable state (would be reported) nor races inside dependencies (A8).",
         "A8 (dependencies race-free), A1-A4, A6, A7, A10; the schedule quantifier is discharged by a meta argument, not by the solver", "5"),
 "C17": ("proof", "One postcondition per exported report field (63 own fields + the embedded reports' fields) relating it to the exact summary of the title / value-name function of the metric it is named after at the requested language, to the same level's Encode/Score/Severity call (call-site ghosts) and to the version label; option lists abstracted by the selected language, tied to the real closures by exact execution of newOptions with 0/1/2/3/4 options.",
         "A5, A7, A10, A-opt (option-list abstraction)", "5"),
 "C18": ("proof", "All 52 name functions executed symbolically (symbolic enumeration integer and language tag): non-empty for every input, Unknown/未定義 off-range; via exact function summaries: English for every tag other than the Japanese tag, pairwise distinct names per metric and language (ground lemma families), Modified value name = base value name.",
         "A7 (language.Tag compares with ==), A10", "5"),
 "C19": ("proof", "Export wrappers proved faithful and fail-clean RELATIVE to an uninterpreted model of text/template, io.Copy and bytes.Buffer (A6): success => reader content = template output and nil error; parse/exec failure, nil/failing reader => nil reader + ErrInvalidTemplate only; nil report => ErrNullPointer; ExportWith = ExportWithString on the reader's content.",
         "A6 (text/template, io.Copy, bytes.Buffer assumed deterministic / non-panicking; nothing is proved about text/template itself), A2, A4, A10", "5"),
 "C20": ("proof", "Symbolic contracts (all strings, all integers) on every Get<Metric>, String, Value, IsUnknown/IsValid/IsDefined/IsChanged of the 36 metric types and the version printer/parser against tables written from the FIRST documents: parse/print inverse, everything else unknown, weights equal the specification (scope-dependent PR, Modified falls back to base).",
         "A10; map iteration modelled as unordered", "5"),
}
checks = []
for pid, (cat, text, note, ref) in sorted(claimed.items()):
    checks.append({
        "property_id": pid,
        "quick_cmd": f"{ENV} bin/verif check {pid} --tier quick",
        "thorough_cmd": f"{ENV} bin/verif check {pid} --tier thorough",
        "evidence_file": f"/verif/evidence/{pid}.json",
        "replay_cmd_template": "bin/verif replay {path}",
        "engine": "govc",
        "level_claimed": {"category": cat, "text": text, "design_ref": f"DESIGN.md section {ref} ({pid})"},
        "level_note": note,
        "technique": "contract-based deductive verification: weakest-precondition style VC generation over the typed Go AST (own generator govc), contracts as //@ comments in /repo (build tag verif), obligations discharged by z3/cvc5",
    })
props = [json.loads(l)["id"] for l in open(f"{V}/properties.jsonl")]
na = [{"property_id": p, "reason": "check not built yet (planned: DESIGN.md section 5); not claimed in this commit"} for p in props if p not in claimed]
hooks = subprocess.run(["git", "-C", "/repo", "log", "--format=%H %s"], capture_output=True, text=True).stdout.strip().split("\n")
hook_commits = [l.split()[0] for l in hooks if " verif hooks" in l]
m = {
 "version": 1,
 "setup_cmd": f"cd /verif/govc && {ENV} go build -o /verif/bin/verif .",
 "hooks": {"guard": "verif", "enable": "contract files zz_contracts*_verif.go (//go:build verif, comment-only); govc loads /repo with -tags verif",
           "baseline_off_cmd": f"cd /repo && {ENV} go test -vet=off -count=1 ./...", "source_commits": hook_commits, "add_only": True},
 "engines": [{"name": "govc", "path": "/verif/govc", "serves_properties": sorted(claimed), "kind_free_text": "contract-based deductive verifier for a Go subset: symbolic executor over go/types AST -> SMT-LIB (FloatingPoint, Strings, Arrays, BitVec) -> z3-new/z3/cvc5"}],
 "checks": checks,
 "notes": "See DESIGN.md. known-findings.txt lists genuine defects (C04 fixed by a fix: commit in /repo, C05 recorded).",
 "not_applicable": na,
}
json.dump(m, open(f"{V}/MANIFEST.json", "w"), indent=1)
print("claimed", sorted(claimed), "pending", len(na))
