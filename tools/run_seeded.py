#!/usr/bin/env python3
"""Confirms a seeded defect independently (scratch worktree: suite passes, demo fails with the patch, demo passes
without) and runs the property's check against /repo with the patch applied (undone straight afterwards).
usage: run_seeded.py <dir with patch.diff demo_test.go meta.json> [--check-only]"""
import json, os, re, shutil, subprocess, sys, time
ENV = dict(os.environ, GOFLAGS="-mod=mod", GOPROXY="off", GOSUMDB="off", GOTOOLCHAIN="local")

def sh(cmd, cwd=None, timeout=1800):
    p = subprocess.run(cmd, shell=True, cwd=cwd, env=ENV, capture_output=True, text=True, timeout=timeout)
    return p.returncode, p.stdout + p.stderr

def main():
    src = sys.argv[1].rstrip("/")
    name = os.path.basename(src)
    for a in sys.argv[2:]:
        if a.startswith("--name="):
            name = a[7:]
    meta = json.load(open(os.path.join(src, "meta.json")))
    prop = meta["property"]
    patch = os.path.join(src, "patch.diff")
    demo = open(os.path.join(src, "demo_test.go")).read()
    m = re.search(r"(v[23]/(?:metric|report(?:/names)?|version))", demo[:600])
    pkgdir = m.group(1) if m else "v3/metric"
    res = {"name": name, "property": prop, "pkgdir": pkgdir}
    if "--check-only" not in sys.argv:
        wt = "/tmp/wt_verify_" + name
        sh(f"git -C /repo worktree remove --force {wt}")
        rc, out = sh(f"git -C /repo worktree add -q --detach {wt} HEAD")
        try:
            rc, out = sh(f"git apply {patch}", cwd=wt)
            res["applies"] = rc == 0
            rc, out = sh("go build ./... && go test -vet=off -count=1 ./...", cwd=wt)
            res["suite_passes_with_patch"] = rc == 0
            shutil.copy(os.path.join(src, "demo_test.go"), os.path.join(wt, pkgdir, "zz_seed_demo_test.go"))
            rc, out = sh(f"go test -vet=off -count=1 -run 'TestSeed' ./{pkgdir}/", cwd=wt)
            res["demo_fails_with_patch"] = rc != 0 and 'no tests to run' not in out
            sh("git checkout -- .", cwd=wt)
            rc, out2 = sh(f"go test -vet=off -count=1 -run 'TestSeed' ./{pkgdir}/", cwd=wt)
            res["demo_passes_without_patch"] = rc == 0
        finally:
            sh(f"git -C /repo worktree remove --force {wt}")
    # run the checks against /repo with the patch applied
    props = [prop] + [p for p in sys.argv[2:] if p.startswith("C")]
    repo = os.environ.get("SEED_REPO", "/repo")
    if repo != "/repo":
        sh(f"rm -rf {repo} && mkdir -p {repo} && git -C /repo archive HEAD | tar -x -C {repo} && cd {repo} && git init -q && git add -A && git -c user.email=a@b -c user.name=x commit -qm base")
    rc, out = sh(f"git -C {repo} apply {patch}")
    assert rc == 0, out
    try:
        res["checks"] = {}
        res["repo"] = repo
        for p in props:
            t0 = time.time()
            rc, out = sh(f"bin/verif check {p} --no-evidence --repo {repo}", cwd="/verif", timeout=3000)
            viol = [l for l in out.split("\n") if l.startswith("VIOLATION")]
            res["checks"][p] = {"exit": rc, "violation_lines": len(viol), "confirmed_replays": len([l for l in viol if "no-failing-input-found" not in l]),
                                "first": viol[:2], "tail": out.strip().split("\n")[-1], "secs": round(time.time() - t0, 1)}
    finally:
        sh(f"git -C {repo} checkout -- .")
        if repo != "/repo":
            sh(f"rm -rf {repo}")
    res["detected"] = any(c["exit"] == 1 for c in res["checks"].values())
    dst = os.path.join("/verif/seeded", name)
    os.makedirs(dst, exist_ok=True)
    if os.path.abspath(src) != os.path.abspath(dst):
        shutil.copy(patch, dst)
        shutil.copy(os.path.join(src, "demo_test.go"), dst)
    meta["ran"] = meta.get("ran", "")
    prev = {}
    if os.path.exists(os.path.join(dst, "meta.json")):
        prev = json.load(open(os.path.join(dst, "meta.json"))).get("verified_by_me", {})
    vb = {k: v for k, v in res.items() if k not in ("checks",)}
    for k in ("applies", "suite_passes_with_patch", "demo_fails_with_patch", "demo_passes_without_patch"):
        if k not in vb and k in prev:
            vb[k] = prev[k]
    meta["verified_by_me"] = vb
    meta["check_results"] = res["checks"]
    json.dump(meta, open(os.path.join(dst, "meta.json"), "w"), indent=1)
    print(json.dumps(res, indent=1))

main()
