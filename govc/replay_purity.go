package main

// Purity / history probe, used as replay for refuted frame obligations and for constructs that left the verified
// subset inside a query: decoded objects are dumped (all fields incl. unexported ones, name maps, embedded objects)
// before and after every query, query results are compared on repetition, against a twin that was never queried, and
// against an object that was queried before it was decoded; reports are compared across an intervening report in
// another language. Used only to confirm refutations.

import (
	"fmt"
	"sort"
	"strings"
	"sync"
)

const purityCommon = `
import (
	"fmt"
	"reflect"
	"sort"
	"strings"
	"testing"
)

func vrDump(v reflect.Value, depth int) string {
	if depth > 6 {
		return "..."
	}
	switch v.Kind() {
	case reflect.Ptr:
		if v.IsNil() {
			return "nil"
		}
		return "&" + vrDump(v.Elem(), depth+1)
	case reflect.Struct:
		var parts []string
		for i := 0; i < v.NumField(); i++ {
			parts = append(parts, v.Type().Field(i).Name+":"+vrDump(v.Field(i), depth+1))
		}
		return "{" + strings.Join(parts, " ") + "}"
	case reflect.Map:
		if v.IsNil() {
			return "nilmap"
		}
		var parts []string
		it := v.MapRange()
		for it.Next() {
			parts = append(parts, vrDump(it.Key(), depth+1)+"="+vrDump(it.Value(), depth+1))
		}
		sort.Strings(parts)
		return "map[" + strings.Join(parts, " ") + "]"
	case reflect.Int, reflect.Int64:
		return fmt.Sprint(v.Int())
	case reflect.Float64:
		return fmt.Sprint(v.Float())
	case reflect.String:
		return fmt.Sprintf("%q", v.String())
	case reflect.Bool:
		return fmt.Sprint(v.Bool())
	case reflect.Slice:
		var parts []string
		for i := 0; i < v.Len(); i++ {
			parts = append(parts, vrDump(v.Index(i), depth+1))
		}
		return "[" + strings.Join(parts, " ") + "]"
	case reflect.Interface:
		if v.IsNil() {
			return "nil"
		}
		return vrDump(v.Elem(), depth+1)
	}
	return v.Kind().String()
}
`

const purityMetricBody = `
type vrObj interface {
	Score() float64
	GetError() error
	Encode() (string, error)
	String() string
}

func vrQueries(o vrObj, extra func() string) string {
	e, err := o.Encode()
	return fmt.Sprintf("score=%v err=%v enc=%q encerr=%v str=%q %s", o.Score(), o.GetError() != nil, e, err != nil, o.String(), extra())
}

// results of every level for fresh objects, one line per vector; run in two processes with opposite orders and compared
// by the caller: "what a decode or query returns for a given vector does not depend on what the process decoded before"
func vrHistory(order []string) {
	for _, v := range order {
		b, t2, e := NewBase(), NewTemporal(), NewEnvironmental()
		rb, rt, re := "rejected", "rejected", "rejected"
		if _, err := b.Decode(v); err == nil {
			rb = vrQueries(b, func() string { return fmt.Sprint(b.Severity()) })
		}
		if _, err := t2.Decode(v); err == nil {
			rt = vrQueries(t2, func() string { return fmt.Sprint(t2.Severity(), t2.BaseMetrics().Score()) })
		}
		if _, err := e.Decode(v); err == nil {
			re = vrQueries(e, func() string { return fmt.Sprint(e.Severity(), e.BaseMetrics().Score(), e.TemporalMetrics().Score()) })
		}
		fmt.Printf("HIST %q => base{%s} temporal{%s} environmental{%s}\n", v, rb, rt, re)
	}
}

func TestVerifHistoryA(t *testing.T) { vrHistory(append(append([]string{}, vrVectors...), vrHistVectors...)) }

func TestVerifHistoryB(t *testing.T) {
	all := append(append([]string{}, vrVectors...), vrHistVectors...)
	for i, j := 0, len(all)-1; i < j; i, j = i+1, j-1 {
		all[i], all[j] = all[j], all[i]
	}
	vrHistory(all)
}

func TestVerifPurity(t *testing.T) {
	for _, v := range vrVectors {
		mk := func() []struct {
			name string
			obj  vrObj
			ex   func() string
			dec  func(string) bool
		} {
			b, t2, e := NewBase(), NewTemporal(), NewEnvironmental()
			return []struct {
				name string
				obj  vrObj
				ex   func() string
				dec  func(string) bool
			}{
				{"Base", b, func() string { return fmt.Sprint(b.Severity()) }, func(s string) bool { _, err := b.Decode(s); return err == nil }},
				{"Temporal", t2, func() string { return fmt.Sprint(t2.Severity(), t2.BaseMetrics().Score(), t2.BaseMetrics().String()) }, func(s string) bool { _, err := t2.Decode(s); return err == nil }},
				{"Environmental", e, func() string {
					return fmt.Sprint(e.Severity(), e.BaseMetrics().Score(), e.TemporalMetrics().Score(), e.TemporalMetrics().String(), e.BaseMetrics().Severity())
				}, func(s string) bool { _, err := e.Decode(s); return err == nil }},
			}
		}
		objs, twins, early := mk(), mk(), mk()
		for i := range objs {
			ok := objs[i].dec(v)
			twins[i].dec(v)
			// 1. queries do not change the object, results repeat
			d0 := vrDump(reflect.ValueOf(objs[i].obj), 0)
			r1 := vrQueries(objs[i].obj, objs[i].ex)
			d1 := vrDump(reflect.ValueOf(objs[i].obj), 0)
			r2 := vrQueries(objs[i].obj, objs[i].ex)
			if d0 != d1 {
				fmt.Printf("PURITY-HIT %s decoder, vector %q: queries changed the object\n  before: %s\n  after:  %s\n", objs[i].name, v, d0, d1)
				return
			}
			if r1 != r2 {
				fmt.Printf("PURITY-HIT %s decoder, vector %q: repeated queries differ\n  first:  %s\n  second: %s\n", objs[i].name, v, r1, r2)
				return
			}
			// 2. a twin queried in the reverse order of levels gives the same results
			rt := vrQueries(twins[i].obj, twins[i].ex)
			if rt != r1 {
				fmt.Printf("PURITY-HIT %s decoder, vector %q: results depend on query history\n  object: %s\n  twin:   %s\n", objs[i].name, v, r1, rt)
				return
			}
			// 3. queries before decoding do not influence the results after decoding
			vrQueries(early[i].obj, early[i].ex)
			ok2 := early[i].dec(v)
			re := vrQueries(early[i].obj, early[i].ex)
			if ok != ok2 || (ok && re != r1) {
				fmt.Printf("PURITY-HIT %s decoder, vector %q: querying before Decode changes later results\n  queried-first: %s\n  fresh:         %s\n", objs[i].name, v, re, r1)
				return
			}
		}
		// 4. environmental score first, then the lower views (order of level queries)
		e1, e2 := NewEnvironmental(), NewEnvironmental()
		if _, err := e1.Decode(v); err == nil {
			e2.Decode(v)
			a := fmt.Sprint(e1.Score(), e1.TemporalMetrics().Score(), e1.BaseMetrics().Score())
			b0 := e2.BaseMetrics().Score()
			t0 := e2.TemporalMetrics().Score()
			b := fmt.Sprint(e2.Score(), t0, b0)
			if a != b {
				fmt.Printf("PURITY-HIT vector %q: scores depend on the order in which the levels are queried: env-first %s, base-first %s\n", v, a, b)
				return
			}
		}
	}
	// 5. a receiver that already holds a decoded vector: the next Decode is rejected, or gives what a fresh receiver gives
	for _, v1 := range vrVectors {
		for _, v2 := range vrVectors {
			type dec struct {
				name string
				mk   func() (func(string) (vrObj, bool), func() string)
			}
			decs := []dec{
				{"Base", func() (func(string) (vrObj, bool), func() string) {
					o := NewBase()
					return func(s string) (vrObj, bool) { r, err := o.Decode(s); return r, err == nil && r != nil }, func() string { return fmt.Sprint(o.Severity()) }
				}},
				{"Temporal", func() (func(string) (vrObj, bool), func() string) {
					o := NewTemporal()
					return func(s string) (vrObj, bool) { r, err := o.Decode(s); return r, err == nil && r != nil }, func() string {
						return fmt.Sprint(o.Severity(), o.BaseMetrics().Score(), o.BaseMetrics().String())
					}
				}},
				{"Environmental", func() (func(string) (vrObj, bool), func() string) {
					o := NewEnvironmental()
					return func(s string) (vrObj, bool) { r, err := o.Decode(s); return r, err == nil && r != nil }, func() string {
						return fmt.Sprint(o.Severity(), o.BaseMetrics().Score(), o.TemporalMetrics().Score(), o.TemporalMetrics().String())
					}
				}},
			}
			for _, d := range decs {
				usedDec, usedEx := d.mk()
				freshDec, freshEx := d.mk()
				if _, ok := usedDec(v1); !ok {
					continue
				}
				r1, ok1 := usedDec(v2)
				if !ok1 {
					continue
				}
				r2, ok2 := freshDec(v2)
				if !ok2 {
					fmt.Printf("PURITY-HIT %s receiver that decoded %q accepts %q, which a fresh receiver rejects\n", d.name, v1, v2)
					return
				}
				a, b := vrQueries(r1, usedEx), vrQueries(r2, freshEx)
				if a != b {
					fmt.Printf("PURITY-HIT %s decoder: Decode(%q) on a receiver that decoded %q before succeeds with results that depend on the earlier vector\n  reused: %s\n  fresh:  %s\n", d.name, v2, v1, a, b)
					return
				}
			}
		}
	}
	// 6. objects built as struct literals (exported metric fields set, unexported state zero) and zero objects: queries
	// repeat and leave the object as it is
	{
		src := NewEnvironmental()
		if _, err := src.Decode(vrVectors[2]); err == nil {
			mkLit := func(from interface{}) reflect.Value {
				v := reflect.ValueOf(from).Elem()
				n := reflect.New(v.Type())
				for i := 0; i < v.NumField(); i++ {
					if v.Type().Field(i).PkgPath == "" && v.Field(i).Kind() != reflect.Ptr && v.Field(i).Kind() != reflect.Map {
						n.Elem().Field(i).Set(v.Field(i))
					}
				}
				return n
			}
			litB := mkLit(src.Base)
			litT := mkLit(src.Temporal)
			litT.Elem().FieldByName("Base").Set(litB)
			litE := mkLit(src)
			litE.Elem().FieldByName("Temporal").Set(litT)
			safe := func(o vrObj) (out string) {
				defer func() {
					if r := recover(); r != nil {
						out = fmt.Sprint("panic: ", r)
					}
				}()
				return vrQueries(o, func() string { return "" })
			}
			for _, l := range []struct {
				name string
				v    reflect.Value
			}{{"Base", litB}, {"Temporal", litT}, {"Environmental", litE}} {
				o, ok := l.v.Interface().(vrObj)
				if !ok {
					continue
				}
				d0 := vrDump(l.v, 0)
				r1 := safe(o)
				d1 := vrDump(l.v, 0)
				r2 := safe(o)
				if d0 != d1 {
					fmt.Printf("PURITY-HIT %s built as a struct literal (exported fields of %q): queries changed the object\n  before: %s\n  after:  %s\n", l.name, vrVectors[2], d0, d1)
					return
				}
				if r1 != r2 {
					fmt.Printf("PURITY-HIT %s built as a struct literal (exported fields of %q): repeated queries differ\n  first:  %s\n  second: %s\n", l.name, vrVectors[2], r1, r2)
					return
				}
			}
			// zero objects: accessors only
			for _, z := range []struct {
				name, method string
				v            reflect.Value
			}{{"zero Temporal", "BaseMetrics", reflect.New(reflect.TypeOf(*src.Temporal))}, {"zero Environmental", "TemporalMetrics", reflect.New(reflect.TypeOf(*src))}} {
				d0 := vrDump(z.v, 0)
				func() {
					defer func() { recover() }()
					z.v.MethodByName(z.method).Call(nil)
				}()
				if d1 := vrDump(z.v, 0); d0 != d1 {
					fmt.Printf("PURITY-HIT %s: %s() changed the object\n  before: %s\n  after:  %s\n", z.name, z.method, d0, d1)
					return
				}
			}
		}
	}
	fmt.Println("PURITY-NONE all probes agree")
}
`

const purityV3 = `package metric
` + purityCommon + `
var vrVectors = []string{
	"CVSS:3.1/AV:N/AC:L/PR:N/UI:N/S:U/C:H/I:H/A:H",
	"CVSS:3.1/AV:N/AC:L/PR:L/UI:N/S:C/C:H/I:L/A:N/E:F/RL:W/RC:R",
	"CVSS:3.0/AV:N/AC:L/PR:L/UI:N/S:U/C:H/I:H/A:H/E:U/RL:O/RC:U/CR:H/IR:L/AR:M/MAV:P/MAC:H/MPR:H/MUI:R/MS:C/MC:L/MI:N/MA:H",
	"CVSS:3.1/AV:N/AC:L/PR:H/UI:N/S:C/C:H/I:H/A:H/MS:U/MPR:L",
	"CVSS:3.1/AV:N/AC:L",
	"CVSS:3.1/AV:N/AC:L/PR:N/UI:N/S:U/C:H/I:H/A:H/E:Z",
}

// pairs that differ only in the version (the changed-scope environmental polynomial differs between 3.0 and 3.1), in the
// scope, or in one metric: a result remembered under too coarse a key shows up when the order of the process changes
var vrHistVectors = []string{
	"CVSS:3.0/AV:N/AC:L/PR:H/UI:R/S:U/C:H/I:H/A:H/CR:H/IR:H/MS:C",
	"CVSS:3.1/AV:N/AC:L/PR:H/UI:R/S:U/C:H/I:H/A:H/CR:H/IR:H/MS:C",
	"CVSS:3.0/AV:L/AC:H/PR:H/UI:R/S:C/C:H/I:H/A:H",
	"CVSS:3.1/AV:L/AC:H/PR:H/UI:R/S:C/C:H/I:H/A:H",
	"CVSS:3.1/AV:L/AC:H/PR:H/UI:R/S:U/C:H/I:H/A:H",
	"CVSS:3.0/AV:L/AC:H/PR:L/UI:R/S:C/C:H/I:H/A:H/E:P/RL:T/RC:R/CR:H/IR:H/AR:H",
	"CVSS:3.1/AV:L/AC:H/PR:L/UI:R/S:C/C:H/I:H/A:H/E:P/RL:T/RC:R/CR:H/IR:H/AR:H",
	"CVSS:3.1/AV:L/AC:H/PR:L/UI:R/S:U/C:H/I:H/A:H/E:P/RL:T/RC:R/CR:H/IR:H/AR:H",
	"CVSS:3.1/AV:N/AC:L/PR:L/UI:N/S:C/C:L/I:L/A:N",
	"CVSS:3.0/AV:N/AC:L/PR:L/UI:N/S:C/C:L/I:L/A:N/MPR:H",
	"CVSS:3.1/AV:N/AC:L/PR:L/UI:N/S:U/C:L/I:L/A:N/MS:C/MPR:H",
}
` + purityMetricBody

const purityV2 = `package metric
` + purityCommon + `
var vrVectors = []string{
	"AV:N/AC:L/Au:N/C:N/I:N/A:C",
	"AV:N/AC:L/Au:N/C:N/I:N/A:C/E:F/RL:OF/RC:C",
	"AV:N/AC:L/Au:N/C:N/I:N/A:C/E:F/RL:OF/RC:C/CDP:H/TD:H/CR:M/IR:M/AR:H",
	"AV:L/AC:H/Au:S/C:P/I:P/A:C/CDP:LM/TD:M/CR:H/IR:L/AR:H",
	"AV:N/AC:L/Au:N",
}

var vrHistVectors = []string{
	"AV:L/AC:H/Au:S/C:N/I:P/A:P",
	"AV:L/AC:H/Au:S/C:N/I:P/A:P/CDP:N/TD:H/CR:M/IR:M/AR:M",
	"AV:L/AC:H/Au:S/C:N/I:P/A:P/CDP:N/TD:H/CR:H/IR:H/AR:H",
	"AV:L/AC:H/Au:S/C:N/I:P/A:P/E:POC/RL:W/RC:UR",
	"AV:N/AC:L/Au:N/C:C/I:C/A:C/E:F/RL:OF/RC:C/CDP:H/TD:L/CR:L/IR:L/AR:L",
	"AV:N/AC:L/Au:N/C:C/I:C/A:C/E:F/RL:OF/RC:C/CDP:H/TD:L/CR:H/IR:H/AR:H",
	"AV:N/AC:L/Au:N/C:C/I:C/A:C",
}
` + purityMetricBody

const purityReportSrc = `package report

import (
	"fmt"
	"reflect"
	"sort"
	"strings"
	"testing"

	"github.com/goark/go-cvss/v3/metric"
	"golang.org/x/text/language"
)
` + `
func vrDumpR(v reflect.Value, depth int) string {
	if depth > 6 {
		return "..."
	}
	switch v.Kind() {
	case reflect.Ptr:
		if v.IsNil() {
			return "nil"
		}
		return "&" + vrDumpR(v.Elem(), depth+1)
	case reflect.Struct:
		var parts []string
		for i := 0; i < v.NumField(); i++ {
			parts = append(parts, v.Type().Field(i).Name+":"+vrDumpR(v.Field(i), depth+1))
		}
		return "{" + strings.Join(parts, " ") + "}"
	case reflect.Map:
		var parts []string
		it := v.MapRange()
		for it.Next() {
			parts = append(parts, fmt.Sprint(it.Key())+"="+fmt.Sprint(it.Value()))
		}
		sort.Strings(parts)
		return "map[" + strings.Join(parts, " ") + "]"
	case reflect.String:
		return fmt.Sprintf("%q", v.String())
	case reflect.Int, reflect.Int64:
		return fmt.Sprint(v.Int())
	}
	return v.Kind().String()
}

func TestVerifPurity(t *testing.T) {
	em, err := metric.NewEnvironmental().Decode("CVSS:3.1/AV:N/AC:L/PR:L/UI:N/S:C/C:H/I:L/A:N/E:F/RL:W/RC:R/CR:H/MPR:H/MS:U")
	if err != nil {
		t.Fatal(err)
	}
	d0 := vrDumpR(reflect.ValueOf(em), 0)
	r1 := vrDumpR(reflect.ValueOf(NewEnvironmental(em)), 0)
	_ = NewBase(em.BaseMetrics(), WithOptionsLanguage(language.French))
	_ = NewTemporal(em.TemporalMetrics(), WithOptionsLanguage(language.Japanese))
	_ = NewEnvironmental(em, WithOptionsLanguage(language.Japanese))
	r2 := vrDumpR(reflect.ValueOf(NewEnvironmental(em)), 0)
	d1 := vrDumpR(reflect.ValueOf(em), 0)
	if d0 != d1 {
		fmt.Printf("PURITY-HIT building reports changed the metrics object\n  before: %s\n  after:  %s\n", d0, d1)
		return
	}
	if r1 != r2 {
		fmt.Printf("PURITY-HIT the same report depends on reports built before it\n  first:  %s\n  later:  %s\n", r1, r2)
		return
	}
	fmt.Println("PURITY-NONE all probes agree")
}
`

var purityCache sync.Map

func purityProbe(repo, pkgDir string) (string, bool) {
	key := repo + "|" + pkgDir
	if v, ok := purityCache.Load(key); ok {
		r := v.([2]interface{})
		return r[0].(string), r[1].(bool)
	}
	src := purityV3
	switch pkgDir {
	case "v2/metric":
		src = purityV2
	case "v3/report":
		src = purityReportSrc
	}
	out, err := runOverlayTest(repo, pkgDir, src, "TestVerifPurity")
	hit := strings.Contains(out, "PURITY-HIT")
	if !hit && pkgDir != "v3/report" && strings.Contains(out, "PURITY-NONE") {
		// process history across objects: the same vectors in opposite orders, in two processes
		hist := func(test string) map[string]string {
			o, _ := runOverlayTest(repo, pkgDir, src, test)
			m := map[string]string{}
			for _, l := range strings.Split(o, "\n") {
				if strings.HasPrefix(l, "HIST ") {
					if k := strings.Index(l, " => "); k > 0 {
						m[l[5:k]] = l[k+4:]
					}
				}
			}
			return m
		}
		a, b := hist("TestVerifHistoryA"), hist("TestVerifHistoryB")
		var keys []string
		for k := range a {
			keys = append(keys, k)
		}
		sort.Strings(keys)
		for _, k := range keys {
			if rb, ok := b[k]; ok && rb != a[k] {
				hit = true
				out = fmt.Sprintf("PURITY-HIT vector %s: what fresh objects return depends on what the process decoded and scored before (the same %d vectors in one process, forwards and backwards)\n  forwards:  %s\n  backwards: %s\n", k, len(keys), a[k], rb)
				break
			}
		}
	}
	rep := "purity / history probe on the real code (" + pkgDir + "): objects dumped before and after every query, repeated and reordered queries, queries before Decode, reports across other languages:\n"
	switch {
	case hit:
		i := strings.Index(out, "PURITY-HIT")
		j := i + 2500
		if j > len(out) {
			j = len(out)
		}
		rep += out[i:j] + "\n=> CONFIRMED\n"
	case strings.Contains(out, "PURITY-NONE"):
		rep += "no difference observed in this probe\n"
	default:
		rep += "probe did not run to completion (" + errString(err) + "): " + tail(out, 800) + "\n"
	}
	purityCache.Store(key, [2]interface{}{rep, hit})
	return rep, hit
}

func errString(e error) string {
	if e == nil {
		return "ok"
	}
	return e.Error()
}
