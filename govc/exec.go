package main

// Symbolic executor over the typed AST of /repo's functions (forward, path-forking).

import (
	"fmt"
	"go/ast"
	"go/constant"
	"go/token"
	"go/types"
	"math/big"
	"os"
	"sort"
	"strings"
)

// ---------------------------------------------------------------------------
// values

type Value interface{}

type SliceVal struct {
	Arr   Term // (Array Int String)
	Off   Term
	Len   Term
	Elems []Term // non-nil when the slice is a known finite list (Arr/Off unused)
	Known bool
}

type TableVal struct {
	T   *Table // nil = nil map
	Lit *ast.CompositeLit
	Pkg *FuncInfo
	// nested literal tables (names package): entries taken from Lit
	Entries []TableEntry
	MapT    *types.Map
	PkgInfo *types.Info
}

type BuilderVal struct{ Content Term }

type TupleVal struct{ Vs []Value }

type CauseVal struct{ Err Term }
type NoOptVal struct{}

type ClosureVal struct {
	Lit  *ast.FuncLit
	Env  map[types.Object]Value
	Info *types.Info
	Fi   *FuncInfo
}

type OpaqueVal struct{ Desc string }

// ValStructRef: a struct of a repository type held BY VALUE in a local variable (x := T{...}); modelled as a fresh heap
// object. Only x.f, x.f = v and &x are in the subset; copying the value (y := x, f(x), return x) is not.
type ValStructRef struct {
	Ref Term
	T   *types.Named
}

// RecVal: a value of a local (anonymous or non-repository) struct type; ListVal: a concrete list of such values or of
// other non-term values (composite literals of slices/arrays of structs). IfaceVal: an interface value with its dynamic type.
type RecVal struct {
	Fields map[string]Value
}
type ListVal struct{ Elems []Value }

// FuncRefVal: a named function or a method value used as a value (parse := GetScope; export := rep.ExportWithString).
type FuncRefVal struct {
	Fn      *types.Func
	Recv    Value
	HasRecv bool
}

// FuncMapVal: a local dispatch table map[string]func(...)...{"AV": func..., ...} with constant keys.
type FuncMapVal struct {
	Keys []Term
	Vals []Value
}

// FieldPtrVal: &x.f for a field of a repository struct: the heap location (field array, object reference).
type FieldPtrVal struct {
	Key  string
	Sort string
	Ref  Term
}
type IfaceVal struct {
	V   Value
	Dyn types.Type
}

type PV struct {
	P *Path
	V Value
}

// ---------------------------------------------------------------------------
// obligations

type Oblig struct {
	Name     string
	Kind     string // post, pre, safety, frame, loopinit, looppres, cut, lemma, exhaustive, cover
	Labels   []string
	Assumes  []Term
	Goal     Term
	Func     string
	Instance string
	Where    string
	Decls    *Ctx
	Result   string // filled by the solver stage: unsat/sat/unknown/...
	Solver   string
	Millis   int64
	Model    string
	Note     string
	Template *FamTemplate
	RetTerms []Value // result values of the finished path (post obligations), for replay
	Lite     *Term   // a stronger, floating-point-free goal (negated guard of an implication); tried first
	Args     []string
}

// ---------------------------------------------------------------------------
// context (one per verified function instance)

type Ctx struct {
	U           *Universe
	Decls       map[string]string
	DeclOrder   []string
	nfresh      int
	Known       map[string]Term
	Obligs      []*Oblig
	Fn          *FuncInfo
	Instance    string
	Untrans     []string // constructs outside the subset met during execution
	CutRepl     map[string]Term
	CutSeen     map[string]bool
	Fam         *FamilySpec
	ReplVal     *Term
	FamVars     map[string]SV
	ForceInline map[string]bool
	nalloc      int
	MaxPaths    int
	Labels      map[string]bool // selected ensures labels (nil = all)
	NoSafety    bool
	AxiomsUsed  map[string]bool
}

func newCtx(u *Universe, fn *FuncInfo) *Ctx {
	return &Ctx{U: u, Decls: map[string]string{}, Known: map[string]Term{}, Fn: fn, CutRepl: map[string]Term{}, CutSeen: map[string]bool{}, MaxPaths: 4096, AxiomsUsed: map[string]bool{}}
}

func (c *Ctx) declare(name, sort string) {
	if _, ok := c.Decls[name]; !ok {
		c.Decls[name] = sort
		c.DeclOrder = append(c.DeclOrder, name)
	}
}

func (c *Ctx) fresh(hint, sort string) Term {
	c.nfresh++
	name := fmt.Sprintf("%s!%d", sanitize(hint), c.nfresh)
	c.declare(name, sort)
	return Term{S: name, Sort: sort}
}

func sanitize(s string) string {
	var b strings.Builder
	for _, r := range s {
		if (r >= 'a' && r <= 'z') || (r >= 'A' && r <= 'Z') || (r >= '0' && r <= '9') || r == '_' {
			b.WriteRune(r)
		} else {
			b.WriteByte('_')
		}
	}
	return b.String()
}

func (c *Ctx) norm(t Term) Term {
	if t.C != nil {
		return t
	}
	if k, ok := c.Known[t.S]; ok {
		return k
	}
	return t
}

func (c *Ctx) untranslatable(pos token.Pos, what string) {
	c.Untrans = append(c.Untrans, fmt.Sprintf("%s: %s", c.U.Fset.Position(pos), what))
}

// ---------------------------------------------------------------------------
// paths

type Path struct {
	C         *Ctx
	Conds     []Term
	Vars      map[types.Object]Value
	Heap      map[string]Term
	Dead      bool
	Ret       []Value
	Returned  bool
	CallOrd   map[string]int
	Trace     []string
	Depth     int
	Facts     map[string]Term            // atoms assumed on this path (folding)
	Ghosts    map[string]Value           // call-site ghosts: results of designated calls
	GhostHeap map[string]map[string]Term // heap right after the designated call returned (for atreturn(g, e))
	Brk, Cont bool                       // an unlabelled break / continue is pending: the enclosing loop (or switch, for break) consumes it
	CutSeen   map[string]bool
}

func (p *Path) clone() *Path {
	q := &Path{C: p.C, Conds: append([]Term(nil), p.Conds...), Vars: make(map[types.Object]Value, len(p.Vars)), Heap: make(map[string]Term, len(p.Heap)),
		CallOrd: make(map[string]int, len(p.CallOrd)), Trace: append([]string(nil), p.Trace...), Depth: p.Depth,
		Facts: make(map[string]Term, len(p.Facts)), CutSeen: make(map[string]bool, len(p.CutSeen)), Brk: p.Brk, Cont: p.Cont}
	for k, v := range p.Facts {
		q.Facts[k] = v
	}
	for k, v := range p.CutSeen {
		q.CutSeen[k] = v
	}
	if p.Ghosts != nil {
		q.Ghosts = make(map[string]Value, len(p.Ghosts))
		for k, v := range p.Ghosts {
			q.Ghosts[k] = v
		}
	}
	if p.GhostHeap != nil {
		q.GhostHeap = make(map[string]map[string]Term, len(p.GhostHeap))
		for k, v := range p.GhostHeap {
			q.GhostHeap[k] = v // snapshots are immutable
		}
	}
	for k, v := range p.Vars {
		q.Vars[k] = v
	}
	for k, v := range p.Heap {
		q.Heap[k] = v
	}
	for k, v := range p.CallOrd {
		q.CallOrd[k] = v
	}
	return q
}

func (p *Path) norm(t Term) Term {
	if t.C != nil {
		return t
	}
	if k, ok := p.Facts[t.S]; ok {
		return k
	}
	return p.C.norm(t)
}

func (p *Path) assume(t Term) {
	t = p.norm(t)
	if c, ok := t.C.(bool); ok {
		if !c {
			p.Dead = true
		}
		return
	}
	p.Conds = append(p.Conds, t)
	p.learn(t)
}

// learn records assumed atoms so that later occurrences of the same atom fold.
func (c *Path) learn(t Term) {
	if t.Sort != SBool || t.C != nil {
		return
	}
	if strings.HasPrefix(t.S, "(and ") {
		for _, part := range splitTop(t.S[5 : len(t.S)-1]) {
			c.learn(Term{S: part, Sort: SBool})
		}
		return
	}
	if strings.HasPrefix(t.S, "(not ") {
		c.Facts[t.S[5:len(t.S)-1]] = tFalse
		return
	}
	c.Facts[t.S] = tTrue
	// equalities with a constant right-hand side also bind the left-hand term
	if strings.HasPrefix(t.S, "(= ") {
		parts := splitTop(t.S[3 : len(t.S)-1])
		if len(parts) == 2 {
			if k, ok := literalTerm(parts[1]); ok {
				c.Facts[parts[0]] = k
			} else if strings.HasPrefix(parts[0], "(") && !strings.HasPrefix(parts[1], "(") && !strings.HasPrefix(parts[1], "\"") && !strings.HasPrefix(parts[1], "#") {
				// application == symbol: rewrite the application to the symbol from now on
				srt := SInt
				if k, ok := c.C.Decls[parts[1]]; ok {
					srt = k
				}
				c.Facts[parts[0]] = Term{S: parts[1], Sort: srt}
			}
		}
	}
}

func literalTerm(s string) (Term, bool) {
	var n int64
	if _, err := fmt.Sscanf(s, "%d", &n); err == nil && fmt.Sprintf("%d", n) == s {
		return mkInt(n), true
	}
	if strings.HasPrefix(s, "(- ") {
		if _, err := fmt.Sscanf(s, "(- %d)", &n); err == nil {
			return mkInt(-n), true
		}
	}
	switch s {
	case "true":
		return tTrue, true
	case "false":
		return tFalse, true
	}
	return Term{}, false
}

func heapSymbol(key string) string { return "H_" + sanitize(key) }

func heapSortFor(valSort string) string {
	return "(Array Int " + smtSort(valSort) + ")"
}

const mapSBKey = "$map.SB"
const allocKey = "$alloc"

func (c *Ctx) initialHeap(key, valSort string) Term {
	name := heapSymbol(key)
	var srt string
	switch key {
	case mapSBKey:
		srt = "(Array Int (Array String Bool))"
	case allocKey:
		srt = "(Array Int Bool)"
	default:
		srt = heapSortFor(valSort)
	}
	c.declare(name, srt)
	return Term{S: name, Sort: srt}
}

func (p *Path) heapGet(key, valSort string) Term {
	if h, ok := p.Heap[key]; ok {
		return h
	}
	h := p.C.initialHeap(key, valSort)
	p.Heap[key] = h
	return h
}

func (p *Path) readField(key, valSort string, ref Term) Term {
	h := p.heapGet(key, valSort)
	return p.norm(tSelect(h, ref, valSort))
}

func (p *Path) writeField(key, valSort string, ref, val Term) {
	h := p.heapGet(key, valSort)
	p.Heap[key] = tStore(h, ref, val)
}

func (p *Path) oblig(kind, name string, goal Term, pos token.Pos, labels ...string) {
	goal = p.norm(goal)
	if c, ok := goal.C.(bool); ok && c {
		return
	}
	o := &Oblig{Name: name, Kind: kind, Assumes: append([]Term(nil), p.Conds...), Goal: goal, Func: p.C.Fn.Key, Instance: p.C.Instance, Decls: p.C, Labels: labels}
	if pos.IsValid() {
		ps := p.C.U.Fset.Position(pos)
		o.Where = fmt.Sprintf("%s:%d", p.C.U.relFile(ps.Filename), ps.Line)
	}
	p.C.Obligs = append(p.C.Obligs, o)
}

func (p *Path) safety(what string, goal Term, pos token.Pos) {
	if p.C.NoSafety {
		return
	}
	ps := p.C.U.Fset.Position(pos)
	p.oblig("safety", fmt.Sprintf("%s#safety:%s@%s:%d", p.C.Fn.Key, what, p.C.U.relFile(ps.Filename), ps.Line), goal, pos, "safety")
}

// ---------------------------------------------------------------------------
// sorts of Go types

func (u *Universe) sortOfType(t types.Type) string {
	if n, ok := t.(*types.Named); ok {
		if n.Obj().Pkg() != nil && n.Obj().Pkg().Path() == "golang.org/x/text/language" && n.Obj().Name() == "Tag" {
			return STag
		}
		if n.Obj().Name() == "error" && n.Obj().Pkg() == nil {
			return SErr
		}
	}
	if isOptionList(t) {
		return STag // abstraction: a report option list is represented by the language it selects
	}
	switch ut := t.Underlying().(type) {
	case *types.Basic:
		switch {
		case ut.Info()&types.IsInteger != 0:
			return SInt
		case ut.Info()&types.IsFloat != 0:
			return SF64
		case ut.Info()&types.IsString != 0:
			return SStr
		case ut.Info()&types.IsBoolean != 0:
			return SBool
		}
	case *types.Pointer:
		return SInt
	case *types.Map:
		if isStringBoolMap(ut) {
			return SInt
		}
	case *types.Interface:
		if t.String() == "error" {
			return SErr
		}
		if t.String() == "io.Reader" {
			return SReader
		}
		if ut.NumMethods() == 0 {
			return SInt // an empty-interface value is represented by the identity of the (pointer) value it holds
		}
	}
	return SOpaque
}

func isOptionList(t types.Type) bool {
	sl, ok := t.Underlying().(*types.Slice)
	if !ok {
		return false
	}
	n, ok := sl.Elem().(*types.Named)
	return ok && n.Obj().Name() == "ReportOptionsFunc"
}

func isStringBoolMap(m *types.Map) bool {
	k, ok1 := m.Key().Underlying().(*types.Basic)
	v, ok2 := m.Elem().Underlying().(*types.Basic)
	return ok1 && ok2 && k.Kind() == types.String && v.Kind() == types.Bool
}

func fieldKey(st *types.Named, f *types.Var) string {
	return aliasOf(st.Obj().Pkg()) + "." + st.Obj().Name() + "." + f.Name()
}

func zeroTerm(sort string) Term {
	switch sort {
	case SInt:
		return mkInt(0)
	case SBool:
		return tFalse
	case SStr:
		return mkStr("")
	case SF64:
		return f64PosZero
	case SErr:
		return errNil
	case SReader:
		return Term{S: "nil_reader", Sort: SReader, C: "reader:nil"}
	}
	return Term{S: "0", Sort: sort}
}

// ---------------------------------------------------------------------------
// errors as 12-bit vectors

var errNil = Term{S: "#x000", Sort: SErr, C: "err:000"}

func errSentinel(bit int) Term {
	v := (1 << 11) | (1 << uint(bit))
	return Term{S: fmt.Sprintf("#x%03x", v), Sort: SErr, C: fmt.Sprintf("err:%03x", v)}
}

func errIsNil(e Term) Term { return tEq(e, errNil) }

func errOr(a, b Term) Term {
	if ca, ok := a.C.(string); ok {
		if cb, ok := b.C.(string); ok {
			var x, y int
			fmt.Sscanf(ca, "err:%x", &x)
			fmt.Sscanf(cb, "err:%x", &y)
			v := x | y
			return Term{S: fmt.Sprintf("#x%03x", v), Sort: SErr, C: fmt.Sprintf("err:%03x", v)}
		}
	}
	return app(SErr, "bvor", a, b)
}

func errHas(e Term, bit int) Term {
	if c, ok := e.C.(string); ok {
		var x int
		fmt.Sscanf(c, "err:%x", &x)
		return mkBool(x&(1<<uint(bit)) != 0)
	}
	return Term{S: fmt.Sprintf("(= ((_ extract %d %d) %s) #b1)", bit, bit, e.S), Sort: SBool}
}

// ---------------------------------------------------------------------------
// constants

func ratOfConst(v constant.Value) *big.Rat {
	switch x := constant.Val(constant.ToFloat(v)).(type) {
	case *big.Rat:
		return x
	case *big.Float:
		r, _ := x.Rat(nil)
		return r
	case int64:
		return new(big.Rat).SetInt64(x)
	case *big.Int:
		return new(big.Rat).SetInt(x)
	}
	return nil
}

func (c *Ctx) constTerm(v constant.Value, t types.Type) (Term, bool) {
	sort := c.U.sortOfType(t)
	if b, ok := t.Underlying().(*types.Basic); ok && b.Info()&types.IsUntyped != 0 {
		switch v.Kind() {
		case constant.Int:
			sort = SInt
		case constant.Float:
			sort = SF64
		case constant.String:
			sort = SStr
		case constant.Bool:
			sort = SBool
		}
	}
	switch sort {
	case SInt:
		if n, ok := constant.Int64Val(constant.ToInt(v)); ok {
			return mkInt(n), true
		}
	case SF64:
		if r := ratOfConst(v); r != nil {
			return mkF64Rat(r), true
		}
	case SStr:
		if v.Kind() == constant.String {
			return mkStr(constant.StringVal(v)), true
		}
	case SBool:
		if v.Kind() == constant.Bool {
			return mkBool(constant.BoolVal(v)), true
		}
	}
	return Term{}, false
}

// ---------------------------------------------------------------------------
// expression evaluation

type frame struct {
	fi    *FuncInfo
	info  *types.Info
	rets  *[]*Path // finished paths of this frame
	depth int
	named []*types.Var // named result parameters (a bare return returns their current values)
}

// bindNamed: named results start at their zero values
func (fr *frame) bindNamed(p *Path, vars []*types.Var) {
	fr.named = nil
	for _, v := range vars {
		if v == nil || v.Name() == "" || v.Name() == "_" {
			fr.named = nil
			return
		}
	}
	for _, v := range vars {
		p.Vars[v] = zeroValueOf(p.C, v.Type())
	}
	fr.named = vars
}

func one(p *Path, v Value) []PV { return []PV{{p, v}} }

func (fr *frame) evalExprs(p *Path, es []ast.Expr) [][]interface{} {
	// returns list of (path, []Value)
	acc := [][]interface{}{{p, []Value{}}}
	for _, e := range es {
		var next [][]interface{}
		for _, a := range acc {
			ap := a[0].(*Path)
			vs := a[1].([]Value)
			for _, pv := range fr.eval(ap, e) {
				nv := append(append([]Value(nil), vs...), pv.V)
				next = append(next, []interface{}{pv.P, nv})
			}
		}
		acc = next
	}
	return acc
}

func asTerm(v Value) (Term, bool) {
	if iv, ok := v.(*IfaceVal); ok { // an interface value is the value it holds
		return asTerm(iv.V)
	}
	t, ok := v.(Term)
	return t, ok
}

func (fr *frame) eval(p *Path, e ast.Expr) []PV {
	c := p.C
	if p.Dead {
		return nil
	}
	if tv, ok := fr.info.Types[e]; ok && tv.Value != nil {
		if t, ok := c.constTerm(tv.Value, tv.Type); ok {
			return one(p, t)
		}
	}
	switch e := e.(type) {
	case *ast.ParenExpr:
		return fr.eval(p, e.X)
	case *ast.Ident:
		return one(p, fr.evalIdent(p, e))
	case *ast.BasicLit:
		c.untranslatable(e.Pos(), "literal "+e.Value)
		return one(p, OpaqueVal{"lit"})
	case *ast.SelectorExpr:
		return fr.evalSelector(p, e)
	case *ast.CallExpr:
		return fr.evalCall(p, e)
	case *ast.UnaryExpr:
		return fr.evalUnary(p, e)
	case *ast.BinaryExpr:
		return fr.evalBinary(p, e)
	case *ast.IndexExpr:
		return fr.evalIndex(p, e, false)
	case *ast.SliceExpr:
		return fr.evalSliceExpr(p, e)
	case *ast.CompositeLit:
		return fr.evalCompositeLit(p, e, false)
	case *ast.FuncLit:
		env := map[types.Object]Value{}
		for k, v := range p.Vars {
			env[k] = v
		}
		return one(p, &ClosureVal{Lit: e, Env: env, Info: fr.info, Fi: fr.fi})
	case *ast.StarExpr:
		var out []PV
		for _, pv := range fr.eval(p, e.X) {
			if fp, ok := pv.V.(*FieldPtrVal); ok {
				out = append(out, PV{pv.P, pv.P.readField(fp.Key, fp.Sort, fp.Ref)})
				continue
			}
			c.untranslatable(e.Pos(), "pointer dereference expression")
			out = append(out, PV{pv.P, OpaqueVal{"star"}})
		}
		return out
	}
	c.untranslatable(e.Pos(), fmt.Sprintf("expression %T", e))
	return one(p, OpaqueVal{"expr"})
}

func (fr *frame) evalIdent(p *Path, id *ast.Ident) Value {
	c := p.C
	obj := fr.info.Uses[id]
	if obj == nil {
		obj = fr.info.Defs[id]
	}
	switch o := obj.(type) {
	case *types.Nil:
		t := fr.info.Types[id].Type
		return nilValueOf(c, t)
	case *types.Var:
		if v, ok := p.Vars[o]; ok {
			return v
		}
		if o.Parent() == o.Pkg().Scope() { // package-level variable
			return c.pkgVarValue(p, o, id.Pos())
		}
		c.untranslatable(id.Pos(), "unbound variable "+id.Name)
		return OpaqueVal{id.Name}
	case *types.Const:
		if t, ok := c.constTerm(o.Val(), o.Type()); ok {
			return t
		}
	case *types.Func:
		return &FuncRefVal{Fn: o} // a named function used as a value
	}
	c.untranslatable(id.Pos(), "identifier "+id.Name)
	return OpaqueVal{id.Name}
}

func nilValueOf(c *Ctx, t types.Type) Value {
	if t == nil {
		return mkInt(0)
	}
	switch ut := t.Underlying().(type) {
	case *types.Map:
		if isStringBoolMap(ut) {
			return mkInt(0)
		}
		return &TableVal{}
	case *types.Slice:
		return &SliceVal{Elems: []Term{}, Known: true, Len: mkInt(0)}
	case *types.Interface:
		if c.U.sortOfType(t) == SErr {
			return errNil
		}
		return OpaqueVal{"nil-interface"}
	}
	if c.U.sortOfType(t) == SErr {
		return errNil
	}
	return mkInt(0)
}

func (c *Ctx) pkgVarValue(p *Path, o *types.Var, pos token.Pos) Value {
	if bit, ok := c.U.Sentinel[o]; ok {
		return errSentinel(bit)
	}
	if t, ok := c.U.Tables[o]; ok {
		return &TableVal{T: t, Entries: t.Entries, MapT: t.Type, PkgInfo: t.Pkg.TypesInfo}
	}
	if o.Pkg().Path() == "golang.org/x/text/language" {
		name := "Tag_" + o.Name()
		if _, inPrelude := c.U.Specs[name]; !inPrelude {
			c.declare(name, STag)
		}
		c.AxiomsUsed["A7"] = true
		return Term{S: name, Sort: STag, C: "tag:" + o.Name()}
	}
	c.untranslatable(pos, "package-level variable "+o.Name())
	return OpaqueVal{o.Name()}
}

// derefField follows one field hop from a pointer-to-struct (or struct pointer) value.
func (fr *frame) fieldHop(p *Path, base Value, baseT types.Type, f *types.Var, pos token.Pos) (Value, types.Type) {
	c := p.C
	pt, isPtr := baseT.Underlying().(*types.Pointer)
	var st *types.Named
	if isPtr {
		st, _ = pt.Elem().(*types.Named)
	} else {
		st, _ = baseT.(*types.Named)
	}
	ref, ok := asTerm(base)
	if vs, isVS := base.(ValStructRef); isVS {
		ref, ok = vs.Ref, true
	}
	if st == nil || !ok {
		c.untranslatable(pos, "field access on unmodelled value")
		return OpaqueVal{"field"}, f.Type()
	}
	p.safety("nil-deref", tNot(tEq(ref, mkInt(0))), pos)
	key := fieldKey(st, f)
	ft := f.Type()
	srt := c.U.sortOfType(ft)
	switch ut := ft.Underlying().(type) {
	case *types.Map:
		if !isStringBoolMap(ut) {
			c.untranslatable(pos, "map-typed field "+key)
			return OpaqueVal{"mapfield"}, ft
		}
	case *types.Slice, *types.Struct, *types.Array, *types.Chan, *types.Signature:
		if srt == SOpaque {
			c.untranslatable(pos, "field of unmodelled type "+key)
			return OpaqueVal{"field"}, ft
		}
	}
	if srt == SOpaque {
		c.untranslatable(pos, "field of unmodelled type "+key)
		return OpaqueVal{"field"}, ft
	}
	return p.readField(key, srt, ref), ft
}

func (fr *frame) evalSelector(p *Path, e *ast.SelectorExpr) []PV {
	c := p.C
	if sel, ok := fr.info.Selections[e]; ok {
		if sel.Kind() == types.MethodVal {
			// method value x.M: the receiver is evaluated now
			if fn, ok := sel.Obj().(*types.Func); ok {
				var out []PV
				for _, pv := range fr.eval(p, e.X) {
					idx := sel.Index()
					v, _ := fr.walkFieldPath(pv.P, pv.V, sel.Recv(), idx[:len(idx)-1], e.Pos())
					out = append(out, PV{pv.P, &FuncRefVal{Fn: fn, Recv: v, HasRecv: true}})
				}
				return out
			}
		}
		if sel.Kind() != types.FieldVal {
			c.untranslatable(e.Pos(), "method value")
			return one(p, OpaqueVal{"methodvalue"})
		}
		var out []PV
		for _, pv := range fr.eval(p, e.X) {
			if rv, ok := pv.V.(*RecVal); ok {
				if fv, ok := rv.Fields[e.Sel.Name]; ok {
					out = append(out, PV{pv.P, fv})
					continue
				}
			}
			v, t := fr.walkFieldPath(pv.P, pv.V, sel.Recv(), sel.Index(), e.Pos())
			_ = t
			out = append(out, PV{pv.P, v})
		}
		return out
	}
	// qualified identifier
	obj := fr.info.Uses[e.Sel]
	switch o := obj.(type) {
	case *types.Var:
		return one(p, c.pkgVarValue(p, o, e.Pos()))
	case *types.Const:
		if t, ok := c.constTerm(o.Val(), o.Type()); ok {
			return one(p, t)
		}
	case *types.Func:
		return one(p, &FuncRefVal{Fn: o})
	}
	c.untranslatable(e.Pos(), "qualified identifier "+e.Sel.Name)
	return one(p, OpaqueVal{e.Sel.Name})
}

func (fr *frame) walkFieldPath(p *Path, v Value, t types.Type, idx []int, pos token.Pos) (Value, types.Type) {
	for _, i := range idx {
		var st *types.Struct
		if pt, ok := t.Underlying().(*types.Pointer); ok {
			st, _ = pt.Elem().Underlying().(*types.Struct)
		} else {
			st, _ = t.Underlying().(*types.Struct)
		}
		if st == nil {
			p.C.untranslatable(pos, "field path through non-struct")
			return OpaqueVal{"fieldpath"}, t
		}
		f := st.Field(i)
		v, t = fr.fieldHop(p, v, t, f, pos)
	}
	return v, t
}

func (fr *frame) evalUnary(p *Path, e *ast.UnaryExpr) []PV {
	c := p.C
	if e.Op == token.AND {
		if cl, ok := e.X.(*ast.CompositeLit); ok {
			return fr.evalCompositeLit(p, cl, true)
		}
		// &buf for a builder/buffer variable: the models of io.Copy / Execute / WriteString rebind the variable itself
		if id, ok := ast.Unparen(e.X).(*ast.Ident); ok {
			if obj, ok := fr.info.Uses[id].(*types.Var); ok {
				if b, ok := p.Vars[obj].(*BuilderVal); ok {
					return one(p, b)
				}
				if vs, ok := p.Vars[obj].(ValStructRef); ok {
					return one(p, vs.Ref) // the variable's own storage
				}
			}
		}
		// &x.f for a field of a repository struct: the heap location
		if se, ok := ast.Unparen(e.X).(*ast.SelectorExpr); ok {
			if sel, ok := fr.info.Selections[se]; ok && sel.Kind() == types.FieldVal {
				var out []PV
				okAll := true
				for _, pv := range fr.eval(p, se.X) {
					idx := sel.Index()
					base, bt := fr.walkFieldPath(pv.P, pv.V, sel.Recv(), idx[:len(idx)-1], e.Pos())
					var named *types.Named
					var st *types.Struct
					if pt, ok := bt.Underlying().(*types.Pointer); ok {
						named, _ = pt.Elem().(*types.Named)
					} else {
						named, _ = bt.(*types.Named)
					}
					ref, ok1 := asTerm(base)
					if vs, isVS := base.(ValStructRef); isVS {
						ref, ok1, named = vs.Ref, true, vs.T
					}
					if named != nil {
						st, _ = named.Underlying().(*types.Struct)
					}
					if !ok1 || st == nil {
						okAll = false
						break
					}
					f := st.Field(idx[len(idx)-1])
					srt := c.U.sortOfType(f.Type())
					if srt == SOpaque {
						okAll = false
						break
					}
					pv.P.safety("nil-deref", tNot(tEq(ref, mkInt(0))), e.Pos())
					out = append(out, PV{pv.P, &FieldPtrVal{Key: fieldKey(named, f), Sort: srt, Ref: ref}})
				}
				if okAll && len(out) > 0 {
					return out
				}
			}
		}
		// &list[i] for a concrete local list of records: the element itself (records are only read through such pointers;
		// a write through one is rejected in assignTo)
		if ix, ok := ast.Unparen(e.X).(*ast.IndexExpr); ok {
			var out []PV
			okAll := true
			for _, pv := range fr.evalIndex(p, ix, false) {
				if _, isRec := pv.V.(*RecVal); !isRec {
					okAll = false
				}
				out = append(out, pv)
			}
			if okAll && len(out) > 0 {
				return out
			}
		}
		c.untranslatable(e.Pos(), "address-of")
		return one(p, OpaqueVal{"addr"})
	}
	var out []PV
	for _, pv := range fr.eval(p, e.X) {
		t, ok := asTerm(pv.V)
		if !ok {
			c.untranslatable(e.Pos(), "unary on unmodelled value")
			out = append(out, PV{pv.P, OpaqueVal{"unary"}})
			continue
		}
		switch e.Op {
		case token.NOT:
			out = append(out, PV{pv.P, tNot(t)})
		case token.SUB:
			if t.Sort == SF64 {
				out = append(out, PV{pv.P, app(SF64, "fp.neg", t)})
			} else {
				out = append(out, PV{pv.P, tIntBin("-", mkInt(0), t)})
			}
		case token.ADD:
			out = append(out, PV{pv.P, t})
		default:
			c.untranslatable(e.Pos(), "unary operator "+e.Op.String())
			out = append(out, PV{pv.P, OpaqueVal{"unary"}})
		}
	}
	return out
}

// toBV64: the 64-bit vector of an Int term; (sbv2int X) -> X, numeral -> literal, otherwise int2sbv
func toBV64(t Term) string {
	if strings.HasPrefix(t.S, "(sbv2int ") {
		return t.S[9 : len(t.S)-1]
	}
	if n, ok := t.C.(int64); ok {
		return fmt.Sprintf("#x%016x", uint64(n))
	}
	return "(int2sbv " + t.S + ")"
}

// bvSide: one operand is a machine integer kept on the bit-vector level and the other a numeral
func bvSide(a, b Term) bool {
	_, ca := a.C.(int64)
	_, cb := b.C.(int64)
	return (strings.HasPrefix(a.S, "(sbv2int ") && cb) || (strings.HasPrefix(b.S, "(sbv2int ") && ca)
}

func fpBin(op string, a, b Term) Term {
	return Term{S: "(" + op + " RNE " + a.S + " " + b.S + ")", Sort: SF64}
}

func (c *Ctx) binop(p *Path, op token.Token, a, b Term, pos token.Pos) Value {
	v := c.binop0(op, a, b, pos)
	if t, ok := v.(Term); ok && t.Sort == SBool {
		if strings.HasPrefix(t.S, "(not ") {
			return tNot(p.norm(Term{S: t.S[5 : len(t.S)-1], Sort: SBool}))
		}
		return p.norm(t)
	}
	return v
}

func (c *Ctx) binop0(op token.Token, a, b Term, pos token.Pos) Value {
	if a.Sort != b.Sort {
		c.untranslatable(pos, fmt.Sprintf("binary operands of different sorts %s/%s", a.Sort, b.Sort))
		return OpaqueVal{"bin"}
	}
	switch a.Sort {
	case SF64:
		switch op {
		case token.ADD:
			return fpBin("fp.add", a, b)
		case token.SUB:
			return fpBin("fp.sub", a, b)
		case token.MUL:
			return fpBin("fp.mul", a, b)
		case token.QUO:
			return fpBin("fp.div", a, b)
		case token.EQL:
			return app(SBool, "fp.eq", a, b)
		case token.NEQ:
			return tNot(app(SBool, "fp.eq", a, b))
		case token.LSS:
			return app(SBool, "fp.lt", a, b)
		case token.LEQ:
			return app(SBool, "fp.leq", a, b)
		case token.GTR:
			return app(SBool, "fp.gt", a, b)
		case token.GEQ:
			return app(SBool, "fp.geq", a, b)
		}
	case SInt:
		switch op {
		case token.ADD:
			return tIntBin("+", a, b)
		case token.SUB:
			return tIntBin("-", a, b)
		case token.MUL:
			return tIntBin("*", a, b)
		case token.EQL:
			if bvSide(a, b) {
				return Term{S: "(= " + toBV64(a) + " " + toBV64(b) + ")", Sort: SBool}
			}
			return tEq(a, b)
		case token.NEQ:
			if bvSide(a, b) {
				return Term{S: "(not (= " + toBV64(a) + " " + toBV64(b) + "))", Sort: SBool}
			}
			return tNot(tEq(a, b))
		case token.LSS:
			return tIntCmp("<", a, b)
		case token.LEQ:
			return tIntCmp("<=", a, b)
		case token.GTR:
			return tIntCmp(">", a, b)
		case token.GEQ:
			return tIntCmp(">=", a, b)
		case token.REM:
			// Go's % truncates toward zero; modelled on 64-bit vectors
			if x, ok := a.C.(int64); ok {
				if y, ok := b.C.(int64); ok && y != 0 {
					return mkInt(x % y)
				}
			}
			return Term{S: fmt.Sprintf("(sbv2int (bvsrem %s %s))", toBV64(a), toBV64(b)), Sort: SInt}
		}
	case SStr:
		switch op {
		case token.ADD:
			return tConcat(a, b)
		case token.EQL:
			return tEq(a, b)
		case token.NEQ:
			return tNot(tEq(a, b))
		}
	case SBool:
		switch op {
		case token.EQL:
			return tEq(a, b)
		case token.NEQ:
			return tNot(tEq(a, b))
		case token.LAND:
			return tAnd(a, b)
		case token.LOR:
			return tOr(a, b)
		}
	case SErr, STag, SReader:
		switch op {
		case token.EQL:
			return tEq(a, b)
		case token.NEQ:
			return tNot(tEq(a, b))
		}
	}
	c.untranslatable(pos, fmt.Sprintf("binary operator %s on %s", op, a.Sort))
	return OpaqueVal{"bin"}
}

func (fr *frame) evalBinary(p *Path, e *ast.BinaryExpr) []PV {
	c := p.C
	var out []PV
	if e.Op == token.LAND || e.Op == token.LOR {
		for _, l := range fr.eval(p, e.X) {
			lt, ok := asTerm(l.V)
			if !ok {
				c.untranslatable(e.Pos(), "logical operand")
				out = append(out, PV{l.P, OpaqueVal{"logic"}})
				continue
			}
			if cb, ok := lt.C.(bool); ok {
				if (e.Op == token.LAND) != cb { // false && _ , true || _
					out = append(out, PV{l.P, lt})
				} else {
					out = append(out, fr.eval(l.P, e.Y)...)
				}
				continue
			}
			// evaluate Y under the guard (for safety obligations), without forking if Y is pure and single
			q := l.P.clone()
			if e.Op == token.LAND {
				q.assume(lt)
			} else {
				q.assume(tNot(lt))
			}
			rs := fr.eval(q, e.Y)
			if len(rs) == 1 && sameHeap(rs[0].P, l.P) {
				if rt, ok := asTerm(rs[0].V); ok {
					if e.Op == token.LAND {
						out = append(out, PV{l.P, tAnd(lt, rt)})
					} else {
						out = append(out, PV{l.P, tOr(lt, rt)})
					}
					continue
				}
			}
			// general case: fork
			s := l.P.clone()
			if e.Op == token.LAND {
				s.assume(tNot(lt))
				if !s.Dead {
					out = append(out, PV{s, tFalse})
				}
			} else {
				s.assume(lt)
				if !s.Dead {
					out = append(out, PV{s, tTrue})
				}
			}
			out = append(out, rs...)
		}
		return out
	}
	isNil := func(x ast.Expr) bool {
		id, ok := x.(*ast.Ident)
		if !ok {
			return false
		}
		_, ok = fr.info.Uses[id].(*types.Nil)
		return ok
	}
	for _, l := range fr.eval(p, e.X) {
		for _, r := range fr.eval(l.P, e.Y) {
			lt, ok1 := asTerm(l.V)
			rt, ok2 := asTerm(r.V)
			if ok1 && ok2 && isNil(e.Y) {
				rt = nilOfSort(lt.Sort)
			}
			if ok1 && ok2 && isNil(e.X) {
				lt = nilOfSort(rt.Sort)
			}
			if !ok1 || !ok2 {
				c.untranslatable(e.Pos(), "binary on unmodelled values")
				out = append(out, PV{r.P, OpaqueVal{"bin"}})
				continue
			}
			out = append(out, PV{r.P, c.binop(r.P, e.Op, lt, rt, e.Pos())})
		}
	}
	return out
}

func sameHeap(a, b *Path) bool {
	if len(a.Heap) != len(b.Heap) {
		// lazily created initial heaps do not count as changes
		for k, v := range a.Heap {
			if w, ok := b.Heap[k]; ok && w.S != v.S {
				return false
			} else if !ok && v.S != heapSymbol(k) {
				return false
			}
		}
		return true
	}
	for k, v := range a.Heap {
		if w, ok := b.Heap[k]; !ok || w.S != v.S {
			return false
		}
	}
	return true
}

func (fr *frame) evalIndex(p *Path, e *ast.IndexExpr, commaOk bool) []PV {
	c := p.C
	var out []PV
	for _, xv := range fr.eval(p, e.X) {
		for _, iv := range fr.eval(xv.P, e.Index) {
			q := iv.P
			switch x := xv.V.(type) {
			case *SliceVal:
				it, ok := asTerm(iv.V)
				if !ok {
					c.untranslatable(e.Pos(), "slice index")
					out = append(out, PV{q, OpaqueVal{"idx"}})
					continue
				}
				q.safety("index", tAnd(tIntCmp(">=", it, mkInt(0)), tIntCmp("<", it, x.Len)), e.Pos())
				out = append(out, PV{q, x.at(c, it)})
			case *FuncMapVal:
				kt, ok := asTerm(iv.V)
				if !ok {
					c.untranslatable(e.Pos(), "dispatch table key")
					out = append(out, PV{q, OpaqueVal{"idx"}})
					continue
				}
				// one path per entry whose key may equal the index, one for "no entry"
				rest := q
				for k := range x.Keys {
					hitP := rest.clone()
					hitP.assume(tEq(kt, x.Keys[k]))
					if !hitP.Dead {
						if commaOk {
							out = append(out, PV{hitP, &TupleVal{[]Value{x.Vals[k], tTrue}}})
						} else {
							out = append(out, PV{hitP, x.Vals[k]})
						}
					}
					rest.assume(tNot(tEq(kt, x.Keys[k])))
					if rest.Dead {
						break
					}
				}
				if !rest.Dead {
					if commaOk {
						out = append(out, PV{rest, &TupleVal{[]Value{OpaqueVal{"nilfunc"}, tFalse}}})
					} else {
						out = append(out, PV{rest, OpaqueVal{"nilfunc"}})
					}
				}
			case *ListVal:
				it, ok := asTerm(iv.V)
				n, isC := it.C.(int64)
				if !ok || !isC || n < 0 || int(n) >= len(x.Elems) {
					c.untranslatable(e.Pos(), "index into a local list that is not concrete")
					out = append(out, PV{q, OpaqueVal{"idx"}})
					continue
				}
				out = append(out, PV{q, x.Elems[n]})
			case *VariadicVal:
				it, ok := asTerm(iv.V)
				n, isC := it.C.(int64)
				if !ok || !isC || x.Symbolic || n < 0 || int(n) >= len(x.Elems) {
					c.untranslatable(e.Pos(), "index into a variadic parameter that is not a concrete list")
					out = append(out, PV{q, OpaqueVal{"idx"}})
					continue
				}
				out = append(out, PV{q, x.Elems[n]})
			case *TableVal:
				kt, ok := asTerm(iv.V)
				if !ok {
					c.untranslatable(e.Pos(), "table key")
					out = append(out, PV{q, OpaqueVal{"idx"}})
					continue
				}
				out = append(out, fr.tableLookup(q, x, kt, commaOk, e.Pos())...)
			case Term:
				// map[string]bool reference
				mt, isMap := fr.info.Types[e.X].Type.Underlying().(*types.Map)
				kt, ok := asTerm(iv.V)
				if isMap && isStringBoolMap(mt) && ok {
					m := q.heapGet(mapSBKey, "")
					val := q.norm(tSelect(tSelect(m, x, SArrSB), kt, SBool))
					if commaOk {
						c.untranslatable(e.Pos(), "comma-ok on names map")
					}
					out = append(out, PV{q, val})
					continue
				}
				c.untranslatable(e.Pos(), "index on term")
				out = append(out, PV{q, OpaqueVal{"idx"}})
			default:
				c.untranslatable(e.Pos(), fmt.Sprintf("index on %T", xv.V))
				out = append(out, PV{q, OpaqueVal{"idx"}})
			}
		}
	}
	return out
}

func (s *SliceVal) at(c *Ctx, i Term) Term {
	if s.Known {
		if n, ok := i.C.(int64); ok && n >= 0 && int(n) < len(s.Elems) {
			return s.Elems[n]
		}
		// symbolic index into known list
		t := mkStr("")
		for k := len(s.Elems) - 1; k >= 0; k-- {
			t = tIte(tEq(i, mkInt(int64(k))), s.Elems[k], t)
		}
		return t
	}
	return c.norm(tSelect(s.Arr, tIntBin("+", s.Off, i), SStr))
}

// tableLookup: v := m[k] / v, ok := m[k] on a package-level map literal.
func (fr *frame) tableLookup(p *Path, tv *TableVal, key Term, commaOk bool, pos token.Pos) []PV {
	c := p.C
	if tv.MapT == nil { // nil map
		c.untranslatable(pos, "lookup in nil map of unknown type")
		return one(p, OpaqueVal{"nilmap"})
	}
	elemT := tv.MapT.Elem()
	_, nested := elemT.Underlying().(*types.Map)
	sub := &frame{fi: fr.fi, info: tv.PkgInfo, rets: fr.rets, depth: fr.depth}
	type ent struct {
		k Term
		e TableEntry
	}
	var ents []ent
	for _, te := range tv.Entries {
		var kt Term
		if te.Key != nil {
			t, ok := c.constTerm(te.Key, tv.MapT.Key())
			if !ok {
				c.untranslatable(pos, "table key constant")
				return one(p, OpaqueVal{"table"})
			}
			kt = t
		} else {
			pvs := sub.eval(p, te.KeyExp)
			if len(pvs) != 1 {
				c.untranslatable(pos, "table key expression")
				return one(p, OpaqueVal{"table"})
			}
			t, ok := asTerm(pvs[0].V)
			if !ok {
				c.untranslatable(pos, "table key expression")
				return one(p, OpaqueVal{"table"})
			}
			kt = t
		}
		ents = append(ents, ent{kt, te})
	}
	if nested {
		// fork per entry
		var out []PV
		none := p.clone()
		for _, en := range ents {
			q := p.clone()
			q.assume(tEq(key, en.k))
			none.assume(tNot(tEq(key, en.k)))
			if q.Dead {
				continue
			}
			cl, _ := en.e.ValExp.(*ast.CompositeLit)
			inner := &TableVal{Lit: cl, MapT: elemT.Underlying().(*types.Map), PkgInfo: tv.PkgInfo}
			if cl != nil {
				for _, el := range cl.Elts {
					if kv, ok := el.(*ast.KeyValueExpr); ok {
						te := TableEntry{KeyExp: kv.Key, ValExp: kv.Value}
						if tvv, ok := tv.PkgInfo.Types[kv.Key]; ok && tvv.Value != nil {
							te.Key = tvv.Value
						}
						inner.Entries = append(inner.Entries, te)
					}
				}
			}
			if commaOk {
				out = append(out, PV{q, &TupleVal{[]Value{inner, tTrue}}})
			} else {
				out = append(out, PV{q, inner})
			}
			if key.C != nil {
				return out
			}
		}
		if !none.Dead {
			if commaOk {
				out = append(out, PV{none, &TupleVal{[]Value{&TableVal{MapT: elemT.Underlying().(*types.Map), PkgInfo: tv.PkgInfo}, tFalse}}})
			} else {
				out = append(out, PV{none, &TableVal{MapT: elemT.Underlying().(*types.Map), PkgInfo: tv.PkgInfo}})
			}
		}
		return out
	}
	srt := c.U.sortOfType(elemT)
	if srt == SOpaque {
		c.untranslatable(pos, "table element type")
		return one(p, OpaqueVal{"table"})
	}
	val := zeroTerm(srt)
	okT := tFalse
	for i := len(ents) - 1; i >= 0; i-- {
		pvs := sub.eval(p, ents[i].e.ValExp)
		if len(pvs) != 1 {
			c.untranslatable(pos, "table value expression")
			return one(p, OpaqueVal{"table"})
		}
		vt, ok := asTerm(pvs[0].V)
		if !ok {
			c.untranslatable(pos, "table value expression")
			return one(p, OpaqueVal{"table"})
		}
		eq := tEq(key, ents[i].k)
		val = tIte(eq, vt, val)
		okT = tOr(eq, okT)
	}
	if commaOk {
		return one(p, &TupleVal{[]Value{val, okT}})
	}
	return one(p, val)
}

func (fr *frame) evalSliceExpr(p *Path, e *ast.SliceExpr) []PV {
	c := p.C
	var out []PV
	for _, xv := range fr.eval(p, e.X) {
		sv, ok := xv.V.(*SliceVal)
		if !ok || e.Slice3 || e.High != nil {
			c.untranslatable(e.Pos(), "slice expression")
			out = append(out, PV{xv.P, OpaqueVal{"slice"}})
			continue
		}
		lo := mkInt(0)
		q := xv.P
		if e.Low != nil {
			lvs := fr.eval(q, e.Low)
			if len(lvs) != 1 {
				c.untranslatable(e.Pos(), "slice bound")
				continue
			}
			lo, _ = asTerm(lvs[0].V)
			q = lvs[0].P
		}
		q.safety("slice-bounds", tAnd(tIntCmp(">=", lo, mkInt(0)), tIntCmp("<=", lo, sv.Len)), e.Pos())
		if sv.Known {
			if n, ok := lo.C.(int64); ok && int(n) <= len(sv.Elems) && n >= 0 {
				out = append(out, PV{q, &SliceVal{Known: true, Elems: sv.Elems[n:], Len: mkInt(int64(len(sv.Elems)) - n)}})
				continue
			}
			if n, ok := lo.C.(int64); ok && int(n) > len(sv.Elems) {
				// out of range: the safety obligation above already fails; the path dies (panic)
				q.Dead = true
				continue
			}
		}
		out = append(out, PV{q, &SliceVal{Arr: sv.Arr, Off: tIntBin("+", sv.Off, lo), Len: tIntBin("-", sv.Len, lo)}})
	}
	return out
}

func (fr *frame) evalCompositeLit(p *Path, e *ast.CompositeLit, addr bool) []PV {
	c := p.C
	t := fr.info.Types[e].Type
	switch ut := t.Underlying().(type) {
	case *types.Slice:
		if len(e.Elts) == 0 {
			return one(p, &SliceVal{Known: true, Elems: []Term{}, Len: mkInt(0)})
		}
	case *types.Map:
		if isStringBoolMap(ut) && len(e.Elts) == 0 {
			r := p.alloc("map")
			m := p.heapGet(mapSBKey, "")
			p.Heap[mapSBKey] = tStore(m, r, Term{S: "((as const (Array String Bool)) false)", Sort: SArrSB})
			return one(p, r)
		}
	case *types.Struct:
		named, _ := t.(*types.Named)
		if named == nil {
			break
		}
		if !addr && named.Obj().Pkg() == nil {
			break
		}
		if named.Obj().Pkg() != nil && (named.Obj().Pkg().Path() == "strings" && named.Obj().Name() == "Builder" || named.Obj().Pkg().Path() == "bytes" && named.Obj().Name() == "Buffer") {
			c.AxiomsUsed["A4"] = true
			return one(p, &BuilderVal{Content: mkStr("")})
		}
		if _, ok := pkgAlias[named.Obj().Pkg().Path()]; !ok {
			break
		}
		byValue := !addr
		// evaluate field initialisers in source order
		type fv struct {
			f *types.Var
			e ast.Expr
		}
		var inits []fv
		seen := map[*types.Var]bool{}
		for i, el := range e.Elts {
			if kv, ok := el.(*ast.KeyValueExpr); ok {
				id, _ := kv.Key.(*ast.Ident)
				var f *types.Var
				for j := 0; j < ut.NumFields(); j++ {
					if id != nil && ut.Field(j).Name() == id.Name {
						f = ut.Field(j)
					}
				}
				if f == nil {
					c.untranslatable(e.Pos(), "composite literal key")
					return one(p, OpaqueVal{"complit"})
				}
				inits = append(inits, fv{f, kv.Value})
				seen[f] = true
			} else {
				inits = append(inits, fv{ut.Field(i), el})
				seen[ut.Field(i)] = true
			}
		}
		var es []ast.Expr
		for _, in := range inits {
			es = append(es, in.e)
		}
		var out []PV
		for _, a := range fr.evalExprs(p, es) {
			q := a[0].(*Path)
			vs := a[1].([]Value)
			r := q.alloc(named.Obj().Name())
			for j := 0; j < ut.NumFields(); j++ {
				f := ut.Field(j)
				srt := c.U.sortOfType(f.Type())
				if srt == SOpaque {
					c.untranslatable(e.Pos(), "struct field of unmodelled type "+f.Name())
					continue
				}
				if !seen[f] {
					q.writeField(fieldKey(named, f), srt, r, zeroTerm(srt))
				}
			}
			for k, in := range inits {
				srt := c.U.sortOfType(in.f.Type())
				vt, ok := asTerm(vs[k])
				if srt == SOpaque || !ok {
					c.untranslatable(e.Pos(), "struct field initialiser "+in.f.Name())
					continue
				}
				q.writeField(fieldKey(named, in.f), srt, r, vt)
			}
			if byValue {
				out = append(out, PV{q, ValStructRef{Ref: r, T: named}})
			} else {
				out = append(out, PV{q, r})
			}
		}
		return out
	}
	// local dispatch table: map[string]func(...){...} with constant string keys
	if mt, ok := t.Underlying().(*types.Map); ok {
		if _, isSig := mt.Elem().Underlying().(*types.Signature); isSig {
			fm := &FuncMapVal{}
			okAll := true
			cur := p
			for _, el := range e.Elts {
				kv, ok := el.(*ast.KeyValueExpr)
				if !ok {
					okAll = false
					break
				}
				ktv, ok := fr.info.Types[kv.Key]
				if !ok || ktv.Value == nil {
					okAll = false
					break
				}
				kt, ok := c.constTerm(ktv.Value, ktv.Type)
				vs := fr.eval(cur, kv.Value)
				if !ok || len(vs) != 1 {
					okAll = false
					break
				}
				cur = vs[0].P
				fm.Keys = append(fm.Keys, kt)
				fm.Vals = append(fm.Vals, vs[0].V)
			}
			if okAll {
				return one(cur, fm)
			}
		}
	}
	// local record / list literals: []struct{...}{{...}, ...}, [...]struct{...}{...}, struct{...}{...}
	if lv, ok := fr.evalLocalLiteral(p, e, t); ok {
		return lv
	}
	c.untranslatable(e.Pos(), "composite literal of type "+t.String())
	return one(p, OpaqueVal{"complit"})
}

// alloc returns a fresh non-nil reference that was not allocated before. Fresh references are distinct negative
// literals (program behaviour cannot depend on the address chosen by the allocator; literals let reads over writes
// fold syntactically); the pre-state is assumed not to have allocated them.
func (p *Path) alloc(hint string) Term {
	p.C.nalloc++
	r := mkInt(-int64(p.C.nalloc))
	a := p.heapGet(allocKey, "")
	p.assume(tNot(p.norm(tSelect(a, r, SBool))))
	p.Heap[allocKey] = tStore(a, r, tTrue)
	return r
}

// ---------------------------------------------------------------------------
// statements

func (fr *frame) execBlock(ps []*Path, stmts []ast.Stmt) []*Path {
	for _, s := range stmts {
		var next []*Path
		for _, p := range ps {
			if p.Dead {
				continue
			}
			if p.Brk || p.Cont {
				next = append(next, p)
				continue
			}
			next = append(next, fr.execStmt(p, s)...)
		}
		ps = next
		if len(ps) > fr.fi0().MaxPaths() {
			break
		}
	}
	return ps
}

var traceForks = os.Getenv("GOVC_TRACE") != ""

type maxPather interface{ MaxPaths() int }

func (fr *frame) fi0() maxPather { return constMax(1 << 20) }

type constMax int

func (c constMax) MaxPaths() int { return int(c) }

func (fr *frame) finish(p *Path, vals []Value) {
	// untyped nil returned as an error value
	if fr.fi != nil && fr.fi.Sig.Results().Len() == len(vals) {
		for i, v := range vals {
			rs := p.C.U.sortOfType(fr.fi.Sig.Results().At(i).Type())
			if t, ok := v.(Term); ok && t.Sort == SInt && t.C == int64(0) && rs == SErr {
				vals[i] = errNil
			}
			if t, ok := v.(Term); ok && t.Sort == SInt && t.C == int64(0) && rs == SReader {
				vals[i] = zeroTerm(SReader)
			}
			if b, ok := v.(*BuilderVal); ok && rs == SReader {
				r := app(SReader, "mk_reader", b.Content)
				// (A6/A4) a buffer seen as io.Reader: non-nil, delivers exactly its content
				p.assume(tEq(app(SStr, "reader_content", r), b.Content))
				p.assume(tNot(tEq(r, zeroTerm(SReader))))
				p.assume(app(SBool, "reader_ok", r))
				vals[i] = r
			}
		}
	}
	p.Returned = true
	p.Ret = vals
	*fr.rets = append(*fr.rets, p)
}

func (fr *frame) execStmt(p *Path, s ast.Stmt) []*Path {
	c := p.C
	switch s := s.(type) {
	case *ast.BlockStmt:
		return fr.execBlock([]*Path{p}, s.List)
	case *ast.ExprStmt:
		var out []*Path
		for _, pv := range fr.eval(p, s.X) {
			out = append(out, pv.P)
		}
		return out
	case *ast.ReturnStmt:
		if traceForks {
			p.Trace = append(p.Trace, fmt.Sprintf("ret@%d/d%d", c.U.Fset.Position(s.Pos()).Line, fr.depth))
		}
		if len(s.Results) == 1 && fr.fi != nil {
			// possibly a tuple-returning call
			for _, pv := range fr.eval(p, s.Results[0]) {
				if tv, ok := pv.V.(*TupleVal); ok {
					fr.finish(pv.P, tv.Vs)
				} else {
					fr.finish(pv.P, []Value{pv.V})
				}
			}
			return nil
		}
		if len(s.Results) == 0 && len(fr.named) > 0 {
			var vals []Value
			for _, v := range fr.named {
				vals = append(vals, p.Vars[v])
			}
			fr.finish(p, vals)
			return nil
		}
		for _, a := range fr.evalExprs(p, s.Results) {
			fr.finish(a[0].(*Path), a[1].([]Value))
		}
		return nil
	case *ast.AssignStmt:
		return fr.execAssign(p, s)
	case *ast.DeclStmt:
		gd, ok := s.Decl.(*ast.GenDecl)
		if ok && (gd.Tok == token.CONST || gd.Tok == token.TYPE) {
			return []*Path{p} // constants are resolved through go/types wherever they are used
		}
		if !ok || gd.Tok != token.VAR {
			c.untranslatable(s.Pos(), "declaration")
			return []*Path{p}
		}
		ps := []*Path{p}
		for _, sp := range gd.Specs {
			vs := sp.(*ast.ValueSpec)
			if len(vs.Values) == 0 {
				for _, nm := range vs.Names {
					obj := fr.info.Defs[nm].(*types.Var)
					for _, q := range ps {
						if named, ok := obj.Type().(*types.Named); ok {
							// var x T for a repository struct: a zero object held by value
							if r, ok := allocZero(q, named); ok {
								q.Vars[obj] = ValStructRef{Ref: r, T: named}
								continue
							}
						}
						q.Vars[obj] = zeroValueOf(c, obj.Type())
					}
				}
				continue
			}
			var next []*Path
			for _, q := range ps {
				for _, a := range fr.evalExprs(q, vs.Values) {
					r := a[0].(*Path)
					vals := a[1].([]Value)
					for i, nm := range vs.Names {
						if obj, ok := fr.info.Defs[nm].(*types.Var); ok && i < len(vals) {
							r.Vars[obj] = vals[i]
						}
					}
					next = append(next, r)
				}
			}
			ps = next
		}
		return ps
	case *ast.IfStmt:
		ps := []*Path{p}
		if s.Init != nil {
			ps = fr.execStmt(p, s.Init)
		}
		var out []*Path
		for _, q := range ps {
			for _, cv := range fr.eval(q, s.Cond) {
				ct, ok := asTerm(cv.V)
				if !ok {
					c.untranslatable(s.Pos(), "if condition")
					continue
				}
				ct = cv.P.norm(ct)
				if cb, ok := ct.C.(bool); ok {
					if cb {
						out = append(out, fr.execStmt(cv.P, s.Body)...)
					} else if s.Else != nil {
						out = append(out, fr.execStmt(cv.P, s.Else)...)
					} else {
						out = append(out, cv.P)
					}
					continue
				}
				tp := cv.P.clone()
				tp.assume(ct)
				ep := cv.P
				ep.assume(tNot(ct))
				if traceForks {
					pos := c.U.Fset.Position(s.Pos())
					tp.Trace = append(tp.Trace, fmt.Sprintf("%d:T", pos.Line))
					ep.Trace = append(ep.Trace, fmt.Sprintf("%d:F", pos.Line))
				}
				if !tp.Dead {
					out = append(out, fr.execStmt(tp, s.Body)...)
				}
				if !ep.Dead {
					if s.Else != nil {
						out = append(out, fr.execStmt(ep, s.Else)...)
					} else {
						out = append(out, ep)
					}
				}
			}
		}
		return out
	case *ast.SwitchStmt:
		return fr.execSwitch(p, s)
	case *ast.RangeStmt:
		return fr.execRange(p, s)
	case *ast.ForStmt:
		return fr.execFor(p, s)
	case *ast.BranchStmt:
		if s.Label == nil && s.Tok == token.BREAK {
			p.Brk = true
			return []*Path{p}
		}
		if s.Label == nil && s.Tok == token.CONTINUE {
			p.Cont = true
			return []*Path{p}
		}
		c.untranslatable(s.Pos(), "labelled branch / goto")
		return []*Path{p}
	case *ast.IncDecStmt, *ast.GoStmt, *ast.DeferStmt, *ast.SelectStmt, *ast.SendStmt, *ast.LabeledStmt, *ast.TypeSwitchStmt:
		c.untranslatable(s.Pos(), fmt.Sprintf("statement %T", s))
		return []*Path{p}
	case *ast.EmptyStmt:
		return []*Path{p}
	}
	c.untranslatable(s.Pos(), fmt.Sprintf("statement %T", s))
	return []*Path{p}
}

func zeroValueOf(c *Ctx, t types.Type) Value {
	switch ut := t.Underlying().(type) {
	case *types.Map:
		if isStringBoolMap(ut) {
			return mkInt(0)
		}
		return &TableVal{MapT: ut}
	case *types.Slice:
		return &SliceVal{Known: true, Elems: []Term{}, Len: mkInt(0)}
	}
	if st, ok := t.Underlying().(*types.Struct); ok {
		if named, isNamed := t.(*types.Named); !isNamed || named.Obj().Pkg() == nil || pkgAlias[named.Obj().Pkg().Path()] == "" {
			isLib := false
			if isNamed && named.Obj().Pkg() != nil {
				pp := named.Obj().Pkg().Path()
				isLib = pp == "strings" || pp == "bytes" || strings.HasPrefix(pp, "golang.org/")
			}
			if !isLib {
				rv := &RecVal{Fields: map[string]Value{}}
				for j := 0; j < st.NumFields(); j++ {
					rv.Fields[st.Field(j).Name()] = zeroValueOf(c, st.Field(j).Type())
				}
				return rv
			}
		}
	}
	if named, ok := t.(*types.Named); ok && named.Obj().Pkg() != nil {
		// var r strings.Builder / var b bytes.Buffer: the zero value is the empty builder (methods are called on the variable)
		if pp, n := named.Obj().Pkg().Path(), named.Obj().Name(); pp == "strings" && n == "Builder" || pp == "bytes" && n == "Buffer" {
			c.AxiomsUsed["A4"] = true
			return &BuilderVal{Content: mkStr("")}
		}
	}
	srt := c.U.sortOfType(t)
	if srt == SOpaque {
		return OpaqueVal{"zero"}
	}
	return zeroTerm(srt)
}

func (fr *frame) execAssign(p *Path, s *ast.AssignStmt) []*Path {
	c := p.C
	// compound assignment x op= y
	if s.Tok != token.ASSIGN && s.Tok != token.DEFINE {
		if len(s.Lhs) != 1 || len(s.Rhs) != 1 {
			c.untranslatable(s.Pos(), "compound assignment")
			return []*Path{p}
		}
		var op token.Token
		switch s.Tok {
		case token.ADD_ASSIGN:
			op = token.ADD
		case token.SUB_ASSIGN:
			op = token.SUB
		case token.MUL_ASSIGN:
			op = token.MUL
		case token.QUO_ASSIGN:
			op = token.QUO
		default:
			c.untranslatable(s.Pos(), "compound assignment "+s.Tok.String())
			return []*Path{p}
		}
		var out []*Path
		for _, l := range fr.eval(p, s.Lhs[0]) {
			for _, r := range fr.eval(l.P, s.Rhs[0]) {
				lt, ok1 := asTerm(l.V)
				rt, ok2 := asTerm(r.V)
				if !ok1 || !ok2 {
					c.untranslatable(s.Pos(), "compound assignment operands")
					out = append(out, r.P)
					continue
				}
				out = append(out, fr.assignTo(r.P, s.Lhs[0], c.binop(r.P, op, lt, rt, s.Pos()), false)...)
			}
		}
		return out
	}
	define := s.Tok == token.DEFINE
	// v, ok := m[k]
	if len(s.Lhs) >= 2 && len(s.Rhs) == 1 {
		var pvs []PV
		if ix, ok := s.Rhs[0].(*ast.IndexExpr); ok && len(s.Lhs) == 2 {
			pvs = fr.evalIndex(p, ix, true)
		} else {
			pvs = fr.eval(p, s.Rhs[0])
		}
		var out []*Path
		for _, pv := range pvs {
			tv, ok := pv.V.(*TupleVal)
			if !ok || len(tv.Vs) != len(s.Lhs) {
				c.untranslatable(s.Pos(), "multi-value assignment from non-tuple")
				out = append(out, pv.P)
				continue
			}
			qs := []*Path{pv.P}
			for i, lhs := range s.Lhs {
				var next []*Path
				for _, q := range qs {
					next = append(next, fr.assignTo(q, lhs, tv.Vs[i], define)...)
				}
				qs = next
			}
			out = append(out, qs...)
		}
		return out
	}
	if len(s.Lhs) != len(s.Rhs) {
		c.untranslatable(s.Pos(), "assignment arity")
		return []*Path{p}
	}
	var out []*Path
	for _, a := range fr.evalExprs(p, s.Rhs) {
		qs := []*Path{a[0].(*Path)}
		vals := a[1].([]Value)
		for i, lhs := range s.Lhs {
			if _, isVS := vals[i].(ValStructRef); isVS {
				if _, isLit := ast.Unparen(s.Rhs[i]).(*ast.CompositeLit); !isLit {
					// y := x / y = x for a struct held by value copies it; the model would alias the two
					c.untranslatable(s.Pos(), "copy of a struct value")
					vals[i] = OpaqueVal{"structcopy"}
				}
			}
			var next []*Path
			for _, q := range qs {
				next = append(next, fr.assignTo(q, lhs, vals[i], define)...)
			}
			qs = next
		}
		out = append(out, qs...)
	}
	return out
}

func (fr *frame) assignTo(p *Path, lhs ast.Expr, v Value, define bool) []*Path {
	c := p.C
	switch l := lhs.(type) {
	case *ast.Ident:
		if l.Name == "_" {
			return []*Path{p}
		}
		var obj types.Object
		if define {
			obj = fr.info.Defs[l]
		}
		if obj == nil {
			obj = fr.info.Uses[l]
		}
		vo, ok := obj.(*types.Var)
		if !ok {
			c.untranslatable(l.Pos(), "assignment target "+l.Name)
			return []*Path{p}
		}
		if vo.Pkg() != nil && vo.Parent() == vo.Pkg().Scope() {
			c.untranslatable(l.Pos(), "WRITE to package-level variable "+l.Name)
			return []*Path{p}
		}
		p.Vars[vo] = v
		return []*Path{p}
	case *ast.SelectorExpr:
		if rv, ok := func() (*RecVal, bool) {
			if id, ok := l.X.(*ast.Ident); ok {
				if o, ok := fr.info.Uses[id].(*types.Var); ok {
					r, ok := p.Vars[o].(*RecVal)
					if _, isPtr := o.Type().Underlying().(*types.Pointer); ok && isPtr {
						c.untranslatable(l.Pos(), "write through a pointer to a local record")
						return nil, false
					}
					return r, ok
				}
			}
			return nil, false
		}(); ok {
			// field of a local record variable: records are values, the variable gets an updated copy
			nr := &RecVal{Fields: map[string]Value{}}
			for k, fv := range rv.Fields {
				nr.Fields[k] = fv
			}
			nr.Fields[l.Sel.Name] = v
			id := l.X.(*ast.Ident)
			p.Vars[fr.info.Uses[id].(*types.Var)] = nr
			return []*Path{p}
		}
		sel, ok := fr.info.Selections[l]
		if !ok || sel.Kind() != types.FieldVal {
			c.untranslatable(l.Pos(), "assignment to selector")
			return []*Path{p}
		}
		var out []*Path
		for _, pv := range fr.eval(p, l.X) {
			q := pv.P
			idx := sel.Index()
			base, bt := fr.walkFieldPath(q, pv.V, sel.Recv(), idx[:len(idx)-1], l.Pos())
			var st *types.Struct
			var named *types.Named
			if pt, ok := bt.Underlying().(*types.Pointer); ok {
				st, _ = pt.Elem().Underlying().(*types.Struct)
				named, _ = pt.Elem().(*types.Named)
			}
			ref, ok1 := asTerm(base)
			if vs, isVS := base.(ValStructRef); isVS { // x.f = v for a struct held by value
				ref, ok1 = vs.Ref, true
				named = vs.T
				st, _ = vs.T.Underlying().(*types.Struct)
			}
			vt, ok2 := asTerm(v)
			if st == nil || named == nil || !ok1 || !ok2 {
				c.untranslatable(l.Pos(), "field assignment on unmodelled value")
				out = append(out, q)
				continue
			}
			f := st.Field(idx[len(idx)-1])
			q.safety("nil-deref", tNot(tEq(ref, mkInt(0))), l.Pos())
			q.writeField(fieldKey(named, f), c.U.sortOfType(f.Type()), ref, vt)
			out = append(out, q)
		}
		return out
	case *ast.StarExpr:
		var out []*Path
		for _, pv := range fr.eval(p, l.X) {
			fp, ok := pv.V.(*FieldPtrVal)
			vt, ok2 := asTerm(v)
			if !ok || !ok2 {
				c.untranslatable(l.Pos(), "assignment through a pointer")
				out = append(out, pv.P)
				continue
			}
			pv.P.writeField(fp.Key, fp.Sort, fp.Ref, vt)
			out = append(out, pv.P)
		}
		return out
	case *ast.IndexExpr:
		// names map write: x.names[k] = b
		mt, isMap := fr.info.Types[l.X].Type.Underlying().(*types.Map)
		if !isMap || !isStringBoolMap(mt) {
			c.untranslatable(l.Pos(), "indexed assignment")
			return []*Path{p}
		}
		var out []*Path
		for _, xv := range fr.eval(p, l.X) {
			for _, kv := range fr.eval(xv.P, l.Index) {
				q := kv.P
				mref, ok1 := asTerm(xv.V)
				kt, ok2 := asTerm(kv.V)
				vt, ok3 := asTerm(v)
				if !ok1 || !ok2 || !ok3 {
					c.untranslatable(l.Pos(), "map assignment operands")
					out = append(out, q)
					continue
				}
				q.safety("nil-map-write", tNot(tEq(mref, mkInt(0))), l.Pos())
				m := q.heapGet(mapSBKey, "")
				q.Heap[mapSBKey] = tStore(m, mref, tStore(tSelect(m, mref, SArrSB), kt, vt))
				out = append(out, q)
			}
		}
		return out
	}
	c.untranslatable(lhs.Pos(), fmt.Sprintf("assignment target %T", lhs))
	return []*Path{p}
}

func (fr *frame) execSwitch(p *Path, s *ast.SwitchStmt) []*Path {
	c := p.C
	ps := []*Path{p}
	if s.Init != nil {
		ps = fr.execStmt(p, s.Init)
	}
	var out []*Path
	for _, q0 := range ps {
		var tags []PV
		if s.Tag != nil {
			tags = fr.eval(q0, s.Tag)
		} else {
			tags = one(q0, tTrue)
		}
		for _, tg := range tags {
			tagT, ok := asTerm(tg.V)
			if !ok {
				c.untranslatable(s.Pos(), "switch tag")
				continue
			}
			cur := []*Path{tg.P} // paths on which no earlier case matched
			var dflt *ast.CaseClause
			for _, cc0 := range s.Body.List {
				cc := cc0.(*ast.CaseClause)
				if cc.List == nil {
					dflt = cc
					continue
				}
				// paths matching this clause
				var matched []*Path
				for _, ce := range cc.List {
					var next []*Path
					for _, q := range cur {
						for _, cv := range fr.eval(q, ce) {
							ct, ok := asTerm(cv.V)
							if !ok {
								c.untranslatable(ce.Pos(), "case expression")
								continue
							}
							cond := cv.P.norm(tEq(tagT, ct))
							if tagT.Sort == SF64 {
								cond = app(SBool, "fp.eq", tagT, ct)
							}
							if cb, ok := cond.C.(bool); ok {
								if cb {
									matched = append(matched, cv.P)
								} else {
									next = append(next, cv.P)
								}
								continue
							}
							m := cv.P.clone()
							m.assume(cond)
							if !m.Dead {
								matched = append(matched, m)
							}
							cv.P.assume(tNot(cond))
							if !cv.P.Dead {
								next = append(next, cv.P)
							}
						}
					}
					cur = next
				}
				for _, m := range matched {
					out = append(out, fr.execClauses(m, s.Body.List, cc)...)
				}
			}
			for _, q := range cur {
				if dflt != nil {
					out = append(out, fr.execClauses(q, s.Body.List, dflt)...)
				} else {
					out = append(out, q)
				}
			}
		}
	}
	return out
}

// execClauses runs the body of clause cc; a trailing fallthrough continues with the next clause's body; an unlabelled
// break inside the switch ends the switch (the flag is consumed here).
func (fr *frame) execClauses(p *Path, clauses []ast.Stmt, cc *ast.CaseClause) []*Path {
	body := cc.Body
	ft := false
	if n := len(body); n > 0 {
		if b, ok := body[n-1].(*ast.BranchStmt); ok && b.Tok == token.FALLTHROUGH {
			ft = true
			body = body[:n-1]
		}
	}
	ps := fr.execBlock([]*Path{p}, body)
	var out []*Path
	for _, q := range ps {
		if q.Brk {
			q.Brk = false
			out = append(out, q)
			continue
		}
		if ft && !q.Cont {
			for i, st := range clauses {
				if st == ast.Stmt(cc) && i+1 < len(clauses) {
					out = append(out, fr.execClauses(q, clauses, clauses[i+1].(*ast.CaseClause))...)
				}
			}
			continue
		}
		out = append(out, q)
	}
	return out
}

// rangeOrdinal numbers range/for statements of a function in source order.
func loopOrdinal(fd *ast.FuncDecl, target ast.Stmt) int {
	n := -1
	found := -1
	ast.Inspect(fd.Body, func(x ast.Node) bool {
		switch x.(type) {
		case *ast.RangeStmt, *ast.ForStmt:
			n++
			if x == ast.Node(target) {
				found = n
			}
		}
		return true
	})
	return found
}

func (fr *frame) execRange(p *Path, s *ast.RangeStmt) []*Path {
	c := p.C
	var out []*Path
	for _, xv := range fr.eval(p, s.X) {
		switch x := xv.V.(type) {
		case *TableVal:
			out = append(out, fr.rangeTable(xv.P, s, x)...)
		case *SliceVal:
			out = append(out, fr.rangeSlice(xv.P, fr.rangeShape(s), x)...)
		case *ListVal:
			ps := []*Path{xv.P}
			for elIdx, el := range x.Elems {
				var next []*Path
				for _, q := range ps {
					if q.Brk {
						next = append(next, q)
						continue
					}
					if s.Key != nil {
						if id, ok := s.Key.(*ast.Ident); ok && id.Name != "_" {
							if obj, ok := fr.info.Defs[id].(*types.Var); ok {
								q.Vars[obj] = mkInt(int64(elIdx))
							}
						}
					}
					if s.Value != nil {
						if id, ok := s.Value.(*ast.Ident); ok && id.Name != "_" {
							if obj, ok := fr.info.Defs[id].(*types.Var); ok {
								q.Vars[obj] = el
							}
						}
					}
					if q.Brk {
						next = append(next, q) // left the loop
						continue
					}
					next = append(next, clearCont(fr.execStmt(q, s.Body))...)
				}
				ps = next
			}
			out = append(out, clearBrk(ps)...)
		case *VariadicVal:
			if x.Symbolic {
				c.untranslatable(s.Pos(), "range over symbolic variadic parameter")
				out = append(out, xv.P)
				continue
			}
			ps := []*Path{xv.P}
			for elIdx, el := range x.Elems {
				var next []*Path
				for _, q := range ps {
					if q.Brk {
						next = append(next, q)
						continue
					}
					if s.Key != nil {
						if id, ok := s.Key.(*ast.Ident); ok && id.Name != "_" {
							if obj, ok := fr.info.Defs[id].(*types.Var); ok {
								q.Vars[obj] = mkInt(int64(elIdx))
							}
						}
					}
					if s.Value != nil {
						if id, ok := s.Value.(*ast.Ident); ok && id.Name != "_" {
							if obj, ok := fr.info.Defs[id].(*types.Var); ok {
								q.Vars[obj] = el
							}
						}
					}
					if q.Brk {
						next = append(next, q)
						continue
					}
					next = append(next, clearCont(fr.execStmt(q, s.Body))...)
				}
				ps = next
			}
			out = append(out, clearBrk(ps)...)
		default:
			c.untranslatable(s.Pos(), fmt.Sprintf("range over %T", xv.V))
			out = append(out, xv.P)
		}
	}
	return out
}

// rangeTable: "for k, v := range <map literal> { if cond { return ... } }" — the body may only return or do nothing.
// Iteration order is unspecified, so every entry whose body returns is a possible result (sound over-approximation).
func (fr *frame) rangeTable(p *Path, s *ast.RangeStmt, tv *TableVal) []*Path {
	c := p.C
	if !bodyOnlyReturns(s.Body) {
		return fr.rangeTableGeneral(p, s, tv)
	}
	c.AxiomsUsed["map-order-free"] = true
	sub := &frame{fi: fr.fi, info: tv.PkgInfo, rets: fr.rets, depth: fr.depth}
	fall := p
	for _, te := range tv.Entries {
		q := p.clone()
		var kt Term
		if te.Key != nil {
			kt, _ = c.constTerm(te.Key, tv.MapT.Key())
		} else {
			pvs := sub.eval(q, te.KeyExp)
			if len(pvs) == 1 {
				kt, _ = asTerm(pvs[0].V)
			}
		}
		pvs := sub.eval(q, te.ValExp)
		if len(pvs) != 1 {
			c.untranslatable(s.Pos(), "table value in range")
			continue
		}
		bind := func(pp *Path) {
			if id, ok := s.Key.(*ast.Ident); ok && id.Name != "_" {
				if obj, ok := fr.info.Defs[id].(*types.Var); ok {
					pp.Vars[obj] = kt
				}
			}
			if s.Value != nil {
				if id, ok := s.Value.(*ast.Ident); ok && id.Name != "_" {
					if obj, ok := fr.info.Defs[id].(*types.Var); ok {
						pp.Vars[obj] = pvs[0].V
					}
				}
			}
		}
		bind(q)
		// paths that return from this entry are recorded by execStmt via fr.rets; the ones falling through
		// constrain the fall-through path: entry did not return.
		before := len(*fr.rets)
		rest := fr.execStmt(q, s.Body)
		_ = rest
		// the fall-through path must satisfy: body on this entry does not return.
		f2 := fall.clone()
		bind(f2)
		// re-run on the fall path collecting only non-returning continuations
		var tmp []*Path
		savedRets := fr.rets
		fr.rets = &tmp
		cont := fr.execStmt(f2, s.Body)
		fr.rets = savedRets
		_ = before
		if len(cont) == 0 {
			fall = nil
			break
		}
		if len(cont) > 1 {
			c.untranslatable(s.Pos(), "range body with several fall-through paths")
		}
		fall = cont[0]
	}
	if fall == nil || fall.Dead {
		return nil
	}
	return []*Path{fall}
}

func bodyOnlyReturns(b *ast.BlockStmt) bool {
	ok := true
	ast.Inspect(b, func(n ast.Node) bool {
		switch n.(type) {
		case *ast.BranchStmt:
			ok = false
		case *ast.AssignStmt, *ast.IncDecStmt, *ast.ExprStmt, *ast.GoStmt, *ast.DeferStmt, *ast.SendStmt, *ast.RangeStmt, *ast.ForStmt, *ast.DeclStmt:
			ok = false
		}
		return true
	})
	return ok
}

func sortedObjs(m map[types.Object]Value) []types.Object {
	var ks []types.Object
	for k := range m {
		ks = append(ks, k)
	}
	sort.Slice(ks, func(i, j int) bool { return ks[i].Pos() < ks[j].Pos() })
	return ks
}

// evalLocalLiteral: composite literals of local record types and of slices / arrays of them. Field values keep their
// dynamic type when the field is of interface type (fmt.Stringer tables).
func (fr *frame) evalLocalLiteral(p *Path, e *ast.CompositeLit, t types.Type) ([]PV, bool) {
	var elemT types.Type
	switch ut := t.Underlying().(type) {
	case *types.Slice:
		elemT = ut.Elem()
	case *types.Array:
		elemT = ut.Elem()
	case *types.Struct:
		return fr.evalRecordLiteral(p, e, ut)
	default:
		return nil, false
	}
	st, ok := elemT.Underlying().(*types.Struct)
	if ok {
		// a struct-typed element that is not written as a literal (a variable, a package-level value such as a language
		// tag): the elements are plain values
		for _, el := range e.Elts {
			if _, isLit := el.(*ast.CompositeLit); !isLit {
				ok = false
			}
		}
	}
	if !ok {
		// [...]T{e1, e2, ...} of plain values (e.g. language tags): a concrete list
		var es []ast.Expr
		for _, el := range e.Elts {
			if _, isKV := el.(*ast.KeyValueExpr); isKV {
				return nil, false
			}
			es = append(es, el)
		}
		if len(es) == 0 {
			return nil, false
		}
		var out []PV
		for _, a := range fr.evalExprs(p, es) {
			vals := a[1].([]Value)
			allStr := true
			var ts []Term
			for _, v := range vals {
				t, ok := asTerm(v)
				if !ok || t.Sort != SStr {
					allStr = false
					break
				}
				ts = append(ts, t)
			}
			if allStr {
				out = append(out, PV{a[0].(*Path), &SliceVal{Known: true, Elems: ts, Len: mkInt(int64(len(ts)))}})
			} else {
				out = append(out, PV{a[0].(*Path), &ListVal{Elems: vals}})
			}
		}
		return out, true
	}
	acc := []PV{{p, &ListVal{}}}
	for _, el := range e.Elts {
		cl, ok := el.(*ast.CompositeLit)
		if !ok {
			return nil, false // keyed array elements, non-literal elements
		}
		var next []PV
		for _, a := range acc {
			rs, ok := fr.evalRecordLiteral(a.P, cl, st)
			if !ok {
				return nil, false
			}
			for _, r := range rs {
				lv := a.V.(*ListVal)
				next = append(next, PV{r.P, &ListVal{Elems: append(append([]Value(nil), lv.Elems...), r.V)}})
			}
		}
		acc = next
	}
	return acc, true
}

func (fr *frame) evalRecordLiteral(p *Path, e *ast.CompositeLit, st *types.Struct) ([]PV, bool) {
	type fe struct {
		name string
		ft   types.Type
		e    ast.Expr
	}
	var fes []fe
	for i, el := range e.Elts {
		if kv, ok := el.(*ast.KeyValueExpr); ok {
			id, ok := kv.Key.(*ast.Ident)
			if !ok {
				return nil, false
			}
			var ft types.Type
			for j := 0; j < st.NumFields(); j++ {
				if st.Field(j).Name() == id.Name {
					ft = st.Field(j).Type()
				}
			}
			if ft == nil {
				return nil, false
			}
			fes = append(fes, fe{id.Name, ft, kv.Value})
		} else {
			if i >= st.NumFields() {
				return nil, false
			}
			fes = append(fes, fe{st.Field(i).Name(), st.Field(i).Type(), el})
		}
	}
	var es []ast.Expr
	for _, f := range fes {
		es = append(es, f.e)
	}
	var out []PV
	for _, a := range fr.evalExprs(p, es) {
		q := a[0].(*Path)
		vs := a[1].([]Value)
		rv := &RecVal{Fields: map[string]Value{}}
		for j := 0; j < st.NumFields(); j++ {
			rv.Fields[st.Field(j).Name()] = zeroValueOf(p.C, st.Field(j).Type())
		}
		for k, f := range fes {
			v := vs[k]
			if _, isIface := f.ft.Underlying().(*types.Interface); isIface {
				if tv, ok := fr.info.Types[f.e]; ok && tv.Type != nil {
					if _, dynIface := tv.Type.Underlying().(*types.Interface); !dynIface {
						v = &IfaceVal{V: v, Dyn: tv.Type}
					}
				}
			}
			rv.Fields[f.name] = v
		}
		out = append(out, PV{q, rv})
	}
	return out, true
}

func clearCont(ps []*Path) []*Path {
	for _, q := range ps {
		q.Cont = false
	}
	return ps
}

func clearBrk(ps []*Path) []*Path {
	for _, q := range ps {
		q.Brk = false
		q.Cont = false
	}
	return ps
}

// rangeTableGeneral: range over a package-level table whose body may assign, continue and break. Iteration order is
// unspecified; the model covers bodies in which every entry either leaves the state untouched (and goes on) or leaves the
// loop (return, or break after its effects): then the possible outcomes are "some entry left the loop with its effects"
// (whichever entry comes first among those that do - every one of them is a possible outcome) or "no entry did".
// A body that changes the state and goes on to the next entry is order-dependent in general and stays outside the subset.
func (fr *frame) rangeTableGeneral(p *Path, s *ast.RangeStmt, tv *TableVal) []*Path {
	c := p.C
	c.AxiomsUsed["map-order-free"] = true
	sub := &frame{fi: fr.fi, info: tv.PkgInfo, rets: fr.rets, depth: fr.depth}
	sameState := func(a, b *Path) bool {
		if len(a.Heap) != len(b.Heap) {
			return false
		}
		for k, v := range a.Heap {
			if w, ok := b.Heap[k]; !ok || w.S != v.S {
				return false
			}
		}
		for k, v := range b.Vars {
			if k.Pos() >= s.Pos() && k.Pos() <= s.End() {
				continue // declared inside the loop
			}
			w, ok := a.Vars[k]
			if !ok {
				return false
			}
			vt, ok1 := asTerm(v)
			wt, ok2 := asTerm(w)
			if ok1 != ok2 || (ok1 && vt.S != wt.S) {
				return false
			}
		}
		return true
	}
	var exits []*Path
	fall := p
	for _, te := range tv.Entries {
		var kt Term
		if te.Key != nil {
			kt, _ = c.constTerm(te.Key, tv.MapT.Key())
		} else if pvs := sub.eval(p.clone(), te.KeyExp); len(pvs) == 1 {
			kt, _ = asTerm(pvs[0].V)
		}
		bind := func(pp *Path) bool {
			if id, ok := s.Key.(*ast.Ident); ok && id.Name != "_" {
				if obj, ok := fr.info.Defs[id].(*types.Var); ok {
					pp.Vars[obj] = kt
				}
			}
			if s.Value != nil {
				if id, ok := s.Value.(*ast.Ident); ok && id.Name != "_" {
					pvs := sub.eval(pp, te.ValExp)
					if len(pvs) != 1 {
						return false
					}
					if obj, ok := fr.info.Defs[id].(*types.Var); ok {
						pp.Vars[obj] = pvs[0].V
					}
				}
			}
			return true
		}
		// 1. this entry as the first effectful one: from the pre-loop state
		q := p.clone()
		if !bind(q) {
			c.untranslatable(s.Pos(), "table value in range")
			return []*Path{p}
		}
		for _, r := range fr.execStmt(q, s.Body) { // returns are recorded through fr.rets
			if r.Dead {
				continue
			}
			if r.Brk {
				r.Brk, r.Cont = false, false
				exits = append(exits, r)
				continue
			}
			r.Cont = false
			if !sameState(p, r) {
				c.untranslatable(s.Pos(), "range over a table with a body that changes state and goes on to the next entry (order-dependent)")
				return []*Path{p}
			}
		}
		// 2. the path on which no entry has an effect: this entry goes on without one
		if fall == nil {
			continue
		}
		f2 := fall.clone()
		bind(f2)
		var tmp []*Path
		savedRets := fr.rets
		fr.rets = &tmp
		cont := fr.execStmt(f2, s.Body)
		fr.rets = savedRets
		var goOn []*Path
		for _, r := range cont {
			if !r.Dead && !r.Brk {
				r.Cont = false
				goOn = append(goOn, r)
			}
		}
		switch len(goOn) {
		case 0:
			fall = nil
		case 1:
			fall = goOn[0]
		default:
			// several ways of going on, all without effect: their disjunction
			base := len(fall.Conds)
			var alts []Term
			for _, r := range goOn {
				alts = append(alts, tAnd(r.Conds[base:]...))
			}
			nf := fall.clone()
			nf.assume(tOr(alts...))
			fall = nf
		}
	}
	if fall != nil && !fall.Dead {
		exits = append(exits, fall)
	}
	return exits
}
