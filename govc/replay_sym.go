package main

// Replay of a refuted symbolic obligation: the solver's model is concretised into inputs of the real function
// (objects are built field by field, name maps entry by entry), the function is run in an in-package test injected
// with go test -overlay, and the real outputs are compared with the outputs the model predicts (which the solver has
// shown to violate the postcondition).

import (
	"bytes"
	"context"
	"encoding/json"
	"fmt"
	"go/types"
	"math"
	"os"
	"os/exec"
	"path/filepath"
	"regexp"
	"sort"
	"strconv"
	"strings"
	"time"
)

type symInput struct {
	name  string
	goT   types.Type
	terms map[string]string // label -> SMT term whose model value is needed
}

func pkgDirOf(fi *FuncInfo) string {
	return strings.TrimPrefix(fi.Pkg.PkgPath, modPath+"/")
}

// structInfo describes a pointer-to-struct parameter type of the repository
func repoStruct(t types.Type) (*types.Named, *types.Struct) {
	pt, ok := t.Underlying().(*types.Pointer)
	if !ok {
		return nil, nil
	}
	n, ok := pt.Elem().(*types.Named)
	if !ok {
		return nil, nil
	}
	st, ok := n.Underlying().(*types.Struct)
	if !ok {
		return nil, nil
	}
	if _, in := pkgAlias[n.Obj().Pkg().Path()]; !in {
		return nil, nil
	}
	return n, st
}

func metricNamesFor(st *SpecTables, n *types.Named) []string {
	fam := st.V3
	if strings.Contains(n.Obj().Pkg().Path(), "/v2/") {
		fam = st.V2
	}
	lv := map[string]string{"Base": "base", "Temporal": "temporal", "Environmental": "environmental"}[n.Obj().Name()]
	var out []string
	for _, m := range fam.Metrics {
		if m.Level == lv {
			out = append(out, m.Name)
		}
	}
	return out
}

// collectObjectTerms lists, for an object reference term, the SMT terms of its scalar fields, map entries and
// (recursively) embedded objects.
func collectObjectTerms(u *Universe, st *SpecTables, ref string, n *types.Named, s *types.Struct, prefix string, out map[string]string, depth int) {
	out[prefix+"#ref"] = ref
	if depth > 3 {
		return
	}
	for i := 0; i < s.NumFields(); i++ {
		f := s.Field(i)
		key := fieldKey(n, f)
		srt := u.sortOfType(f.Type())
		if srt == SOpaque {
			continue
		}
		t := "(select " + heapSymbol(key) + " " + ref + ")"
		if mt, ok := f.Type().Underlying().(*types.Map); ok && isStringBoolMap(mt) {
			out[prefix+"."+f.Name()+"#map"] = t
			for _, nm := range metricNamesFor(st, n) {
				out[prefix+"."+f.Name()+"["+nm+"]"] = "(select (select " + heapSymbol(mapSBKey) + " " + t + ") " + smtStringLit(nm) + ")"
			}
			continue
		}
		if n2, s2 := repoStruct(f.Type()); n2 != nil {
			collectObjectTerms(u, st, t, n2, s2, prefix+"."+f.Name(), out, depth+1)
			continue
		}
		out[prefix+"."+f.Name()] = t
	}
}

var reGetVal = regexp.MustCompile(`^\s*\(\((.*)\)\)\s*$`)

func parseModelValue(v string) (kind string, val interface{}) {
	v = strings.TrimSpace(v)
	switch {
	case v == "true" || v == "false":
		return "bool", v == "true"
	case strings.HasPrefix(v, "\""):
		return "string", decodeSMTString(strings.ReplaceAll(v[1:len(v)-1], "\"\"", "\""))
	case strings.HasPrefix(v, "(- "):
		n, _ := strconv.ParseInt(strings.TrimSuffix(strings.TrimPrefix(v, "(- "), ")"), 10, 64)
		return "int", -n
	case strings.HasPrefix(v, "#x"):
		n, _ := strconv.ParseUint(v[2:], 16, 64)
		return "err", int64(n)
	case strings.HasPrefix(v, "(fp ") || strings.HasPrefix(v, "(_ "):
		if b, ok := parseFPLit(v); ok {
			return "float", b
		}
		if strings.Contains(v, "NaN") {
			return "float", math.Float64bits(math.NaN())
		}
		if strings.Contains(v, "+oo") {
			return "float", math.Float64bits(math.Inf(1))
		}
		if strings.Contains(v, "-oo") {
			return "float", math.Float64bits(math.Inf(-1))
		}
	}
	if n, err := strconv.ParseInt(v, 10, 64); err == nil {
		return "int", n
	}
	return "other", v
}

func goLit(kind string, val interface{}, t types.Type) string {
	switch kind {
	case "int":
		return fmt.Sprintf("%s(%d)", typeStringLocal(t), val.(int64))
	case "bool":
		return fmt.Sprint(val.(bool))
	case "string":
		return strconv.Quote(val.(string))
	case "float":
		return fmt.Sprintf("math.Float64frombits(0x%x)", val.(uint64))
	}
	return "nil"
}

func typeStringLocal(t types.Type) string {
	return types.TypeString(t, func(p *types.Package) string {
		if _, in := pkgAlias[p.Path()]; in {
			return "" // in-package test: unqualified
		}
		return p.Name()
	})
}

func replaySymbolic(u *Universe, st *SpecTables, d *Discharger, o *Oblig, repo string) (string, bool) {
	if o.Decls == nil || o.Decls.Fn == nil || o.Decls.Fn.Decl == nil || o.Result != "sat" {
		return "", false
	}
	if o.Kind != "post" && o.Kind != "safety" && o.Kind != "pre" {
		return "", false
	}
	fi := o.Decls.Fn
	sig := fi.Sig
	// A model interprets the uninterpreted stand-ins of library functions (Split pieces, template/reader functions,
	// oracle tables) arbitrarily; equality of real and predicted outputs then proves nothing. Such obligations are
	// only replayed for panics; a failing input is searched from the public entry points instead.
	modelMeaningful := true
	{
		txt := o.Goal.S
		for _, a := range o.Assumes {
			txt += a.S
		}
		for _, sym := range []string{"split_slash", "split_colon", "nsplit_", "tt_parse", "tt_exec", "reader_", "mk_reader", "(pow13 ", "(pow15 ", "fmt_f64"} {
			if strings.Contains(txt, sym) {
				modelMeaningful = false
			}
		}
	}
	// 1. terms whose model values are needed
	terms := map[string]string{}
	type prm struct {
		v    *types.Var
		recv bool
	}
	var params []prm
	if r := sig.Recv(); r != nil {
		params = append(params, prm{r, true})
	}
	for i := 0; i < sig.Params().Len(); i++ {
		params = append(params, prm{sig.Params().At(i), false})
	}
	for _, pr := range params {
		nm := "in_" + sanitize(pr.v.Name())
		if n, s := repoStruct(pr.v.Type()); n != nil {
			collectObjectTerms(u, st, nm, n, s, pr.v.Name(), terms, 0)
			continue
		}
		srt := u.sortOfType(pr.v.Type())
		if srt == SOpaque || srt == SReader {
			return "replay: parameter " + pr.v.Name() + " has a type that cannot be concretised\n", false
		}
		terms[pr.v.Name()] = nm
	}
	for i, rv := range o.RetTerms {
		if t, ok := rv.(Term); ok {
			terms[fmt.Sprintf("$ret%d", i)] = t.S
		}
	}
	terms["$tagE"] = "Tag_English"
	terms["$tagJ"] = "Tag_Japanese"
	labels := make([]string, 0, len(terms))
	for k := range terms {
		labels = append(labels, k)
	}
	sort.Strings(labels)
	// 2. model values
	var sb strings.Builder
	sb.WriteString("(set-option :produce-models true)\n")
	sb.WriteString(d.Prelude)
	sb.WriteString(declsText(o.Decls))
	for _, a := range o.Assumes {
		sb.WriteString("(assert " + a.S + ")\n")
	}
	sb.WriteString("(assert (not " + o.Goal.S + "))\n(check-sat)\n")
	for _, l := range labels {
		t := terms[l]
		if (l == "$tagE" || l == "$tagJ") && !strings.Contains(sb.String(), "Tag_") {
			continue
		}
		sb.WriteString("(echo \"@@" + l + "\")\n(get-value (" + t + "))\n")
	}
	f, err := os.CreateTemp(d.Dir, "model-*.smt2")
	if err != nil {
		return "", false
	}
	f.WriteString(sb.String())
	f.Close()
	defer os.Remove(f.Name())
	ctx, cancel := context.WithTimeout(context.Background(), 90*time.Second)
	defer cancel()
	cmd := exec.CommandContext(ctx, "z3-new", "-smt2", "-t:60000", f.Name())
	var out bytes.Buffer
	cmd.Stdout = &out
	cmd.Stderr = &out
	_ = cmd.Run()
	vals := map[string]string{}
	cur := ""
	for _, ln := range strings.Split(out.String(), "\n") {
		t := strings.TrimSpace(ln)
		if strings.HasPrefix(t, "@@") || strings.HasPrefix(t, "\"@@") {
			cur = strings.Trim(t, "\"@")
			continue
		}
		if cur != "" && strings.HasPrefix(t, "((") {
			// ((term value))
			inner := t[2 : len(t)-2]
			parts := splitTop(inner)
			if len(parts) >= 2 {
				vals[cur] = parts[len(parts)-1]
			}
			cur = ""
		}
	}
	if !strings.HasPrefix(strings.TrimSpace(out.String()), "sat") {
		return "replay: no model available (" + firstLine(out.String()) + ")\n", false
	}
	// 3. Go test source
	var rep strings.Builder
	var src strings.Builder
	pkgName := fi.Pkg.Name
	src.WriteString("package " + pkgName + "\n\nimport (\n\t\"encoding/json\"\n\t\"errors\"\n\t\"fmt\"\n\t\"math\"\n\t\"testing\"\n")
	imports := map[string]bool{}
	tagExpr := func(label string) string {
		v := vals[label]
		imports["golang.org/x/text/language"] = true
		switch v {
		case vals["$tagE"]:
			return "language.English"
		case vals["$tagJ"]:
			return "language.Japanese"
		}
		return "language.French"
	}
	var body strings.Builder
	var buildObj func(prefix string, n *types.Named, s *types.Struct) string
	buildObj = func(prefix string, n *types.Named, s *types.Struct) string {
		if k, v := parseModelValue(vals[prefix+"#ref"]); k == "int" && v.(int64) == 0 {
			return "nil"
		}
		var fs []string
		for i := 0; i < s.NumFields(); i++ {
			f := s.Field(i)
			if mt, ok := f.Type().Underlying().(*types.Map); ok && isStringBoolMap(mt) {
				if k, v := parseModelValue(vals[prefix+"."+f.Name()+"#map"]); k == "int" && v.(int64) == 0 {
					fs = append(fs, f.Name()+": nil")
					continue
				}
				var ents []string
				for _, nm := range metricNamesFor(st, n) {
					if k, v := parseModelValue(vals[prefix+"."+f.Name()+"["+nm+"]"]); k == "bool" && v.(bool) {
						ents = append(ents, strconv.Quote(nm)+": true")
					}
				}
				fs = append(fs, f.Name()+": map[string]bool{"+strings.Join(ents, ", ")+"}")
				continue
			}
			if n2, s2 := repoStruct(f.Type()); n2 != nil {
				fs = append(fs, f.Name()+": "+buildObj(prefix+"."+f.Name(), n2, s2))
				continue
			}
			k, v := parseModelValue(vals[prefix+"."+f.Name()])
			if k == "other" || vals[prefix+"."+f.Name()] == "" {
				continue
			}
			if u.sortOfType(f.Type()) == STag {
				fs = append(fs, f.Name()+": "+tagExpr(prefix+"."+f.Name()))
				continue
			}
			fs = append(fs, f.Name()+": "+goLit(k, v, f.Type()))
		}
		tn := n.Obj().Name()
		if n.Obj().Pkg() != fi.Obj.Pkg() {
			imports[n.Obj().Pkg().Path()] = true
			tn = n.Obj().Pkg().Name() + "." + tn
		}
		return "&" + tn + "{" + strings.Join(fs, ", ") + "}"
	}
	var argExprs []string
	recvExpr := ""
	for _, pr := range params {
		var ex string
		if n, s := repoStruct(pr.v.Type()); n != nil {
			if n.Obj().Pkg() != fi.Obj.Pkg() {
				// unexported fields of another package cannot be set: not replayable this way
				return "replay: parameter " + pr.v.Name() + " is an object of another package\n", false
			}
			ex = buildObj(pr.v.Name(), n, s)
			if ex == "nil" {
				ex = "(*" + n.Obj().Name() + ")(nil)"
			}
		} else if u.sortOfType(pr.v.Type()) == STag {
			ex = tagExpr(pr.v.Name())
		} else {
			k, v := parseModelValue(vals[pr.v.Name()])
			if k == "other" {
				return "replay: no model value for " + pr.v.Name() + "\n", false
			}
			ex = goLit(k, v, pr.v.Type())
			if types.TypeString(pr.v.Type(), nil) != typeStringLocal(pr.v.Type()) {
				// type of another repository package
				if nt, ok := pr.v.Type().(*types.Named); ok && nt.Obj().Pkg() != fi.Obj.Pkg() {
					imports[nt.Obj().Pkg().Path()] = true
					ex = nt.Obj().Pkg().Name() + "." + ex
				}
			}
		}
		if pr.recv {
			recvExpr = ex
		} else {
			argExprs = append(argExprs, ex)
		}
	}
	call := fi.Obj.Name() + "(" + strings.Join(argExprs, ", ") + ")"
	if recvExpr != "" {
		body.WriteString("\trecv := " + recvExpr + "\n")
		call = "recv." + call
	}
	nres := sig.Results().Len()
	var lhs []string
	for i := 0; i < nres; i++ {
		lhs = append(lhs, fmt.Sprintf("r%d", i))
	}
	if nres > 0 {
		body.WriteString("\t" + strings.Join(lhs, ", ") + " := " + call + "\n")
	} else {
		body.WriteString("\t" + call + "\n")
	}
	body.WriteString("\tout := map[string]interface{}{}\n")
	for i := 0; i < nres; i++ {
		rt := sig.Results().At(i).Type()
		switch u.sortOfType(rt) {
		case SF64:
			fmt.Fprintf(&body, "\tout[\"r%d\"] = fmt.Sprintf(\"bits:%%d\", math.Float64bits(r%d))\n", i, i)
		case SErr:
			imports[modPath+"/cvsserr"] = true
			fmt.Fprintf(&body, "\tout[\"r%d\"] = vrErrBits(r%d)\n", i, i)
		case SInt:
			if _, isPtr := rt.Underlying().(*types.Pointer); isPtr {
				fmt.Fprintf(&body, "\tout[\"r%d\"] = r%d != nil\n", i, i)
			} else {
				fmt.Fprintf(&body, "\tout[\"r%d\"] = int64(r%d)\n", i, i)
			}
		case SStr, SBool:
			fmt.Fprintf(&body, "\tout[\"r%d\"] = r%d\n", i, i)
		default:
			fmt.Fprintf(&body, "\t_ = r%d\n", i)
		}
	}
	body.WriteString("\tb, _ := json.Marshal(out)\n\tfmt.Println(\"REPLAY \" + string(b))\n")
	for imp := range imports {
		src.WriteString("\t\"" + imp + "\"\n")
	}
	src.WriteString(")\n\nvar _ = math.Float64bits\nvar _ = errors.Is\n\n")
	if imports[modPath+"/cvsserr"] {
		var names []string
		for _, n := range u.SentinelNames {
			names = append(names, "cvsserr."+n)
		}
		src.WriteString("func vrErrBits(e error) int64 {\n\tif e == nil {\n\t\treturn 0\n\t}\n\tbits := int64(1 << 11)\n\tfor i, s := range []error{" + strings.Join(names, ", ") + "} {\n\t\tif errors.Is(e, s) {\n\t\t\tbits |= 1 << uint(i)\n\t\t}\n\t}\n\treturn bits\n}\n\n")
	}
	src.WriteString("func TestVerifReplaySym(t *testing.T) {\n\tdefer func() {\n\t\tif r := recover(); r != nil {\n\t\t\tfmt.Println(\"REPLAY-PANIC\", r)\n\t\t}\n\t}()\n" + body.String() + "}\n")
	rep.WriteString("model inputs (solver): ")
	for _, l := range labels {
		if v, ok := vals[l]; ok && !strings.HasPrefix(l, "$tag") {
			fmt.Fprintf(&rep, "%s=%s ", l, v)
		}
	}
	rep.WriteString("\n---- generated in-package test (go test -overlay, nothing written under the repository) ----\n" + src.String())
	// 4. run
	outText, err := runOverlayTest(repo, pkgDirOf(fi), src.String(), "TestVerifReplaySym")
	if err != nil && !strings.Contains(outText, "REPLAY") {
		rep.WriteString("replay run failed: " + err.Error() + "\n" + tail(outText, 1200) + "\n")
		return rep.String(), false
	}
	for _, ln := range strings.Split(outText, "\n") {
		if strings.HasPrefix(ln, "REPLAY-PANIC") {
			rep.WriteString("real code: " + ln + "\n=> the real code panics on the model's input: CONFIRMED\n")
			return rep.String(), true
		}
		if !strings.HasPrefix(ln, "REPLAY ") {
			continue
		}
		rep.WriteString("real code returned: " + ln[7:] + "\n")
		var got map[string]interface{}
		json.Unmarshal([]byte(ln[7:]), &got)
		if o.Kind != "post" {
			rep.WriteString("the real code did not panic on this input; the refuted " + o.Kind + " obligation does not replay\n")
			return rep.String(), false
		}
		if !modelMeaningful {
			rep.WriteString("the obligation mentions uninterpreted stand-ins of library functions; the model's input is not a faithful input, no conclusion from this run\n")
			return rep.String(), false
		}
		same := true
		compared := 0
		for i := 0; i < nres; i++ {
			mv, ok := vals[fmt.Sprintf("$ret%d", i)]
			if !ok {
				continue
			}
			k, v := parseModelValue(mv)
			g, present := got[fmt.Sprintf("r%d", i)]
			if !present {
				continue
			}
			compared++
			switch k {
			case "int", "err":
				if gf, ok := g.(float64); ok {
					if int64(gf) != v.(int64) {
						same = false
					}
				} else if gb, ok := g.(bool); ok { // pointer result: nil-ness
					if gb != (v.(int64) != 0) {
						same = false
					}
				}
			case "float":
				if gs, ok := g.(string); !ok || gs != fmt.Sprintf("bits:%d", v.(uint64)) {
					// +0.0 and -0.0 are identified (the contracts use fp.eq where the sign of zero can differ)
					if !(ok && (gs == "bits:0" || gs == fmt.Sprintf("bits:%d", uint64(1)<<63)) && (v.(uint64) == 0 || v.(uint64) == 1<<63)) {
						same = false
					}
				}
			case "string":
				if gs, ok := g.(string); !ok || gs != v.(string) {
					same = false
				}
			case "bool":
				if gb, ok := g.(bool); !ok || gb != v.(bool) {
					same = false
				}
			}
			fmt.Fprintf(&rep, "  result %d: model predicts %s, real code %v\n", i, mv, g)
		}
		if same && compared > 0 {
			rep.WriteString("=> the real code returns exactly the outputs of the solver's counterexample, which violate the postcondition: CONFIRMED\n")
			return rep.String(), true
		}
		rep.WriteString("the real outputs differ from the model's (or could not be compared); the refutation does not replay on this input\n")
		return rep.String(), false
	}
	rep.WriteString("no output from the replay run\n" + tail(outText, 800))
	return rep.String(), false
}

func firstLine(s string) string {
	s = strings.TrimSpace(s)
	if i := strings.Index(s, "\n"); i >= 0 {
		return s[:i]
	}
	return s
}

// runOverlayTest injects an in-package test file with go test -overlay and runs one test.
func runOverlayTest(repo, pkgDir, src, testName string) (string, error) {
	tmp, err := os.MkdirTemp("", "govc-replay-")
	if err != nil {
		return "", err
	}
	defer os.RemoveAll(tmp)
	tf := filepath.Join(tmp, "zz_verif_replay_test.go")
	os.WriteFile(tf, []byte(src), 0o644)
	ov := map[string]map[string]string{"Replace": {filepath.Join(repo, pkgDir, "zz_verif_replay_test.go"): tf}}
	ovb, _ := json.Marshal(ov)
	ovf := filepath.Join(tmp, "overlay.json")
	os.WriteFile(ovf, ovb, 0o644)
	ctx, cancel := context.WithTimeout(context.Background(), 180*time.Second)
	defer cancel()
	cmd := exec.CommandContext(ctx, "go", "test", "-overlay", ovf, "-vet=off", "-timeout", "60s", "-v", "-count=1", "-run", "^"+testName+"$", "./"+pkgDir)
	cmd.Dir = repo
	cmd.Env = append(os.Environ(), "GOFLAGS=-mod=mod", "GOPROXY=off", "GOSUMDB=off", "GOTOOLCHAIN=local")
	var out bytes.Buffer
	cmd.Stdout = &out
	cmd.Stderr = &out
	err = cmd.Run()
	return out.String(), err
}
