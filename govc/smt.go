package main

// SMT term layer: terms are strings with a sort and an optional folded constant
// (int64, bool or string). Float64 terms are never folded on the Go side: the
// solver is the only evaluator of floating-point arithmetic.

import (
	"fmt"
	"math/big"
	"sort"
	"strings"
)

const (
	SInt    = "Int"
	SBool   = "Bool"
	SStr    = "String"
	SF64    = "F64"
	SReal   = "Real"
	SErr    = "Err" // (_ BitVec 12): bit 11 = non-nil, bits 0..10 = sentinel match set
	STag    = "Tag"
	SArrSB  = "(Array String Bool)"
	SArrIS  = "(Array Int String)"
	SReader = "Reader"
	SOpaque = "Opaque" // values of types outside the modelled subset
)

type Term struct {
	S    string
	Sort string
	C    interface{} // nil | int64 | bool | string
}

func (t Term) IsConst() bool { return t.C != nil }
func (t Term) String() string {
	return t.S
}

func mkInt(n int64) Term {
	if n < 0 {
		return Term{S: fmt.Sprintf("(- %d)", -n), Sort: SInt, C: n}
	}
	return Term{S: fmt.Sprintf("%d", n), Sort: SInt, C: n}
}
func mkBool(b bool) Term {
	if b {
		return Term{S: "true", Sort: SBool, C: true}
	}
	return Term{S: "false", Sort: SBool, C: false}
}

var tTrue = mkBool(true)
var tFalse = mkBool(false)

func smtStringLit(s string) string {
	var b strings.Builder
	b.WriteByte('"')
	for _, r := range s {
		switch {
		case r == '"':
			b.WriteString(`""`)
		case r == '\\':
			b.WriteString(`\u{5c}`)
		case r >= 0x20 && r < 0x7f:
			b.WriteRune(r)
		default:
			fmt.Fprintf(&b, `\u{%x}`, r)
		}
	}
	b.WriteByte('"')
	return b.String()
}
func mkStr(s string) Term { return Term{S: smtStringLit(s), Sort: SStr, C: s} }

// mkF64Rat builds the Float64 literal nearest (RNE) to the exact rational r.
func mkF64Rat(r *big.Rat) Term {
	neg := r.Sign() < 0
	a := new(big.Rat).Abs(r)
	var s string
	if a.IsInt() {
		s = a.Num().String() + ".0"
	} else {
		s = fmt.Sprintf("(/ %s.0 %s.0)", a.Num().String(), a.Denom().String())
	}
	if neg {
		s = "(- " + s + ")"
	}
	return Term{S: "((_ to_fp 11 53) RNE " + s + ")", Sort: SF64}
}

func mkRealRat(r *big.Rat) Term {
	neg := r.Sign() < 0
	a := new(big.Rat).Abs(r)
	var s string
	if a.IsInt() {
		s = a.Num().String() + ".0"
	} else {
		s = fmt.Sprintf("(/ %s.0 %s.0)", a.Num().String(), a.Denom().String())
	}
	if neg {
		s = "(- " + s + ")"
	}
	return Term{S: s, Sort: SReal}
}

var f64PosZero = Term{S: "(_ +zero 11 53)", Sort: SF64}

func app(sort string, f string, args ...Term) Term {
	var b strings.Builder
	b.WriteByte('(')
	b.WriteString(f)
	for _, a := range args {
		b.WriteByte(' ')
		b.WriteString(a.S)
	}
	b.WriteByte(')')
	return Term{S: b.String(), Sort: sort}
}

func tNot(a Term) Term {
	if c, ok := a.C.(bool); ok {
		return mkBool(!c)
	}
	if strings.HasPrefix(a.S, "(not ") {
		return Term{S: a.S[5 : len(a.S)-1], Sort: SBool}
	}
	return app(SBool, "not", a)
}
func tAnd(as ...Term) Term {
	var keep []Term
	for _, a := range as {
		if c, ok := a.C.(bool); ok {
			if !c {
				return tFalse
			}
			continue
		}
		keep = append(keep, a)
	}
	switch len(keep) {
	case 0:
		return tTrue
	case 1:
		return keep[0]
	}
	return app(SBool, "and", keep...)
}
func tOr(as ...Term) Term {
	var keep []Term
	for _, a := range as {
		if c, ok := a.C.(bool); ok {
			if c {
				return tTrue
			}
			continue
		}
		keep = append(keep, a)
	}
	switch len(keep) {
	case 0:
		return tFalse
	case 1:
		return keep[0]
	}
	return app(SBool, "or", keep...)
}
func tImplies(a, b Term) Term {
	if c, ok := a.C.(bool); ok {
		if c {
			return b
		}
		return tTrue
	}
	if c, ok := b.C.(bool); ok {
		if c {
			return tTrue
		}
		return tNot(a)
	}
	return app(SBool, "=>", a, b)
}
func tIte(c, a, b Term) Term {
	if cc, ok := c.C.(bool); ok {
		if cc {
			return a
		}
		return b
	}
	if a.S == b.S {
		return a
	}
	if a.Sort == SBool {
		return tAnd(tImplies(c, a), tImplies(tNot(c), b))
	}
	return Term{S: "(ite " + c.S + " " + a.S + " " + b.S + ")", Sort: a.Sort}
}

// tEq is structural/bit equality ("=" in SMT-LIB).
func tEq(a, b Term) Term {
	if a.C != nil && b.C != nil {
		return mkBool(a.C == b.C)
	}
	if a.S == b.S && a.Sort != SF64 {
		return tTrue
	}
	if a.Sort == SBool {
		if c, ok := a.C.(bool); ok {
			if c {
				return b
			}
			return tNot(b)
		}
		if c, ok := b.C.(bool); ok {
			if c {
				return a
			}
			return tNot(a)
		}
	}
	if a.C != nil && b.C == nil {
		a, b = b, a
	}
	return app(SBool, "=", a, b)
}

func tIntCmp(op string, a, b Term) Term {
	if x, ok := a.C.(int64); ok {
		if y, ok := b.C.(int64); ok {
			switch op {
			case "<":
				return mkBool(x < y)
			case "<=":
				return mkBool(x <= y)
			case ">":
				return mkBool(x > y)
			case ">=":
				return mkBool(x >= y)
			}
		}
	}
	return app(SBool, op, a, b)
}
func tIntBin(op string, a, b Term) Term {
	if x, ok := a.C.(int64); ok {
		if y, ok := b.C.(int64); ok {
			switch op {
			case "+":
				return mkInt(x + y)
			case "-":
				return mkInt(x - y)
			case "*":
				return mkInt(x * y)
			}
		}
	}
	return app(SInt, op, a, b)
}
func tStrLen(a Term) Term {
	if s, ok := a.C.(string); ok {
		return mkInt(int64(len(s))) // byte length; only compared with 0 in the code base
	}
	return app(SInt, "str.len", a)
}
func tConcat(as ...Term) Term {
	all := true
	var sb strings.Builder
	for _, a := range as {
		s, ok := a.C.(string)
		if !ok {
			all = false
			break
		}
		sb.WriteString(s)
	}
	if all {
		return mkStr(sb.String())
	}
	// flatten nested concatenations, merge adjacent constants
	var flat []Term
	for _, a := range as {
		if a.C == nil && strings.HasPrefix(a.S, "(str.++ ") {
			for _, pt := range splitTop(a.S[8 : len(a.S)-1]) {
				if strings.HasPrefix(pt, "\"") {
					flat = append(flat, mkStr(decodeSMTString(strings.ReplaceAll(pt[1:len(pt)-1], "\"\"", "\""))))
				} else {
					flat = append(flat, Term{S: pt, Sort: SStr})
				}
			}
			continue
		}
		flat = append(flat, a)
	}
	as = flat
	var parts []Term
	for _, a := range as {
		if s, ok := a.C.(string); ok {
			if s == "" {
				continue
			}
			if n := len(parts); n > 0 {
				if p, ok := parts[n-1].C.(string); ok {
					parts[n-1] = mkStr(p + s)
					continue
				}
			}
		}
		parts = append(parts, a)
	}
	if len(parts) == 1 {
		return parts[0]
	}
	return app(SStr, "str.++", parts...)
}

func isLiteralIdx(s string) bool {
	if s == "" {
		return false
	}
	if s[0] == '"' || (s[0] >= '0' && s[0] <= '9') {
		return true
	}
	return strings.HasPrefix(s, "(- ")
}

func tSelect(arr, idx Term, elemSort string) Term {
	// read-over-write on syntactic store chains: identical index -> stored value; two different literals -> skip
	s := arr.S
	for strings.HasPrefix(s, "(store ") {
		parts := splitTop(s[7 : len(s)-1])
		if len(parts) != 3 {
			break
		}
		if parts[1] == idx.S {
			t := Term{S: parts[2], Sort: elemSort}
			if k, ok := literalTermAny(parts[2], elemSort); ok {
				return k
			}
			return t
		}
		if isLiteralIdx(parts[1]) && isLiteralIdx(idx.S) {
			s = parts[0]
			continue
		}
		break
	}
	if strings.HasPrefix(s, "((as const ") && elemSort == SBool {
		if strings.HasSuffix(s, " false)") {
			return tFalse
		}
		if strings.HasSuffix(s, " true)") {
			return tTrue
		}
	}
	return Term{S: "(select " + s + " " + idx.S + ")", Sort: elemSort}
}

func literalTermAny(s, sort string) (Term, bool) {
	switch sort {
	case SBool:
		if s == "true" {
			return tTrue, true
		}
		if s == "false" {
			return tFalse, true
		}
	case SInt:
		var n int64
		if _, err := fmt.Sscanf(s, "%d", &n); err == nil && fmt.Sprintf("%d", n) == s {
			return mkInt(n), true
		}
	}
	return Term{}, false
}

func tStore(arr, idx, val Term) Term {
	return Term{S: "(store " + arr.S + " " + idx.S + " " + val.S + ")", Sort: arr.Sort}
}

// splitTop splits an s-expression body into its top-level items.
func splitTop(s string) []string {
	var out []string
	depth := 0
	start := -1
	inStr := false
	for i := 0; i < len(s); i++ {
		c := s[i]
		if inStr {
			if c == '"' {
				if i+1 < len(s) && s[i+1] == '"' {
					i++
					continue
				}
				inStr = false
				if depth == 0 {
					out = append(out, s[start:i+1])
					start = -1
				}
			}
			continue
		}
		switch c {
		case '"':
			inStr = true
			if depth == 0 && start < 0 {
				start = i
			}
		case '(':
			if depth == 0 && start < 0 {
				start = i
			}
			depth++
		case ')':
			depth--
			if depth == 0 {
				out = append(out, s[start:i+1])
				start = -1
			}
		case ' ', '\n', '\t', '\r':
			if depth == 0 && start >= 0 {
				out = append(out, s[start:i])
				start = -1
			}
		default:
			if depth == 0 && start < 0 {
				start = i
			}
		}
	}
	if start >= 0 {
		out = append(out, s[start:])
	}
	return out
}

func smtSort(s string) string {
	switch s {
	case SF64:
		return "(_ FloatingPoint 11 53)"
	case SErr:
		return "(_ BitVec 12)"
	}
	return s
}

// ---------------------------------------------------------------------------
// prelude signatures

type SpecSig struct {
	Name   string
	Params []string // sorts
	Result string
}

func canonSort(s string) string {
	s = strings.TrimSpace(s)
	switch s {
	case "(_ FloatingPoint 11 53)", "F64":
		return SF64
	case "(_ BitVec 12)", "Err":
		return SErr
	}
	return strings.Join(strings.Fields(s), " ")
}

// parsePreludeSigs extracts define-fun / declare-fun / declare-const / define-fun-rec signatures.
func parsePreludeSigs(text string, into map[string]*SpecSig) {
	// strip comments
	var sb strings.Builder
	for _, ln := range strings.Split(text, "\n") {
		if i := commentStart(ln); i >= 0 {
			ln = ln[:i]
		}
		sb.WriteString(ln)
		sb.WriteByte('\n')
	}
	for _, form := range splitTop(sb.String()) {
		if !strings.HasPrefix(form, "(") {
			continue
		}
		items := splitTop(form[1 : len(form)-1])
		if len(items) < 3 {
			continue
		}
		switch items[0] {
		case "define-fun", "define-fun-rec":
			if len(items) < 5 {
				continue
			}
			sig := &SpecSig{Name: items[1], Result: canonSort(items[3])}
			for _, p := range splitTop(items[2][1 : len(items[2])-1]) {
				pi := splitTop(p[1 : len(p)-1])
				sig.Params = append(sig.Params, canonSort(strings.Join(pi[1:], " ")))
			}
			into[sig.Name] = sig
		case "declare-fun":
			sig := &SpecSig{Name: items[1], Result: canonSort(items[3])}
			for _, p := range splitTop(items[2][1 : len(items[2])-1]) {
				sig.Params = append(sig.Params, canonSort(p))
			}
			into[sig.Name] = sig
		case "declare-const":
			into[items[1]] = &SpecSig{Name: items[1], Result: canonSort(items[2])}
		}
	}
}

func commentStart(ln string) int {
	inStr := false
	for i := 0; i < len(ln); i++ {
		if ln[i] == '"' {
			inStr = !inStr
		}
		if ln[i] == ';' && !inStr {
			return i
		}
	}
	return -1
}

func sortedKeys[V any](m map[string]V) []string {
	ks := make([]string, 0, len(m))
	for k := range m {
		ks = append(ks, k)
	}
	sort.Strings(ks)
	return ks
}
