package main

// Sentinel probe: replay for refuted "sentinels#..." obligations. Runs in package cvsserr of the real code: every pair of
// different sentinels must not match under errors.Is, and every sentinel must match itself.

import "strings"

const sentinelProbeSrc = `package cvsserr

import (
	"errors"
	"fmt"
	"testing"
)

func TestVerifSentinels(t *testing.T) {
	all := map[string]error{
		"ErrNullPointer": ErrNullPointer, "ErrInvalidVector": ErrInvalidVector, "ErrNotSupportVer": ErrNotSupportVer,
		"ErrNotSupportMetric": ErrNotSupportMetric, "ErrInvalidTemplate": ErrInvalidTemplate, "ErrSameMetric": ErrSameMetric,
		"ErrInvalidValue": ErrInvalidValue, "ErrNoBaseMetrics": ErrNoBaseMetrics, "ErrNoTemporalMetrics": ErrNoTemporalMetrics,
		"ErrNoEnvironmentalMetrics": ErrNoEnvironmentalMetrics, "ErrMisordered": ErrMisordered,
	}
	hit := false
	for an, a := range all {
		if a == nil || !errors.Is(a, a) {
			fmt.Printf("SENTINEL-HIT %s is nil or does not match itself\n", an)
			hit = true
		}
		for bn, b := range all {
			if an != bn && errors.Is(a, b) {
				fmt.Printf("SENTINEL-HIT an error that is %s also matches %s under errors.Is: a rejection reporting %s claims a defect of kind %s as well\n", an, bn, an, bn)
				hit = true
			}
		}
	}
	if !hit {
		fmt.Println("SENTINEL-NONE the 11 sentinels are pairwise non-matching")
	}
}
`

func sentinelProbe(repo string) (string, bool) {
	out, err := runOverlayTest(repo, "cvsserr", sentinelProbeSrc, "TestVerifSentinels")
	rep := "sentinel probe on the real code (package cvsserr, errors.Is over all ordered pairs of the 11 sentinels):\n"
	switch {
	case strings.Contains(out, "SENTINEL-HIT"):
		var lines []string
		for _, l := range strings.Split(out, "\n") {
			if strings.HasPrefix(l, "SENTINEL-HIT") {
				lines = append(lines, l)
			}
		}
		return rep + strings.Join(lines, "\n") + "\n=> CONFIRMED\n", true
	case strings.Contains(out, "SENTINEL-NONE"):
		return rep + "no pair matches in this probe\n", false
	}
	return rep + "probe did not run to completion (" + errString(err) + "): " + tail(out, 800) + "\n", false
}
