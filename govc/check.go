package main

// `verif check <ID>`: regenerate and discharge every obligation a property rests on, write evidence, report.

import (
	"encoding/json"
	"flag"
	"fmt"
	"math/rand"
	"os"
	"os/exec"
	"path/filepath"
	"runtime"
	"sort"
	"strconv"
	"strings"
	"time"
)

type KnownFinding struct {
	Property   string
	Obligation string
	Case       string
	Text       string
}

func loadKnownFindings(path string) ([]KnownFinding, []string) {
	data, err := os.ReadFile(path)
	if err != nil {
		return nil, nil
	}
	var out []KnownFinding
	var fixed []string
	for _, ln := range strings.Split(string(data), "\n") {
		ln = strings.TrimSpace(ln)
		if strings.HasPrefix(ln, "fixed:") {
			fixed = append(fixed, ln)
			continue
		}
		if !strings.HasPrefix(ln, "finding:") {
			continue
		}
		kf := KnownFinding{Text: ln}
		rest := strings.TrimSpace(ln[len("finding:"):])
		// property=<ID> obligation=<name> case=[...] ...
		if i := strings.Index(rest, "property="); i >= 0 {
			kf.Property = strings.Fields(rest[i+9:])[0]
		}
		if i := strings.Index(rest, "obligation="); i >= 0 {
			kf.Obligation = strings.Fields(rest[i+11:])[0]
		}
		if i := strings.Index(rest, "case=["); i >= 0 {
			j := strings.Index(rest[i:], "]")
			if j > 0 {
				kf.Case = rest[i+6 : i+j]
			}
		}
		out = append(out, kf)
	}
	return out, fixed
}

type Evidence struct {
	PropertyID  string                 `json:"property_id"`
	Tier        string                 `json:"tier"`
	Seed        int64                  `json:"seed"`
	Level       string                 `json:"level"`
	Coverage    map[string]interface{} `json:"coverage"`
	Assumptions []string               `json:"assumptions"`
	WallS       float64                `json:"wall_s"`
	Violations  int                    `json:"violations"`
}

func envCheck() []string {
	var probs []string
	out, _ := exec.Command("go", "env", "GOARCH", "GOAMD64").Output()
	f := strings.Fields(string(out))
	if len(f) < 1 || f[0] != "amd64" {
		probs = append(probs, "GOARCH is not amd64: float semantics (FMA fusion) differ from the proved ones")
	} else if len(f) >= 2 && f[1] != "v1" && f[1] != "v2" {
		probs = append(probs, "GOAMD64="+f[1]+" may fuse multiply-add")
	}
	return probs
}

func checkCmd(args []string) int {
	fs := flag.NewFlagSet("check", flag.ExitOnError)
	repo := fs.String("repo", "/repo", "repository working tree")
	tier := fs.String("tier", os.Getenv("VERIF_TIER"), "quick|thorough")
	listFail := fs.Bool("list-failures", false, "print failing ground instances as known-findings lines and exit 0")
	evdir := fs.String("evidence", filepath.Join(verifRoot, "evidence"), "evidence directory")
	noEvidence := fs.Bool("no-evidence", false, "do not write the evidence file")
	var id string
	if len(args) > 0 && !strings.HasPrefix(args[0], "-") {
		id = args[0]
		args = args[1:]
	}
	fs.Parse(args)
	if id == "" && fs.NArg() > 0 {
		id = fs.Arg(0)
	}
	if *tier == "" {
		*tier = "quick"
	}
	seed := int64(1)
	if s := os.Getenv("VERIF_SEED"); s != "" {
		if v, err := strconv.ParseInt(s, 10, 64); err == nil {
			seed = v
		}
	}
	start := time.Now()
	u, st, err := setup(*repo)
	if err != nil {
		fmt.Printf("ERROR: cannot load %s with -tags verif: %v\n", *repo, err)
		return 2
	}
	plan := u.plans(st)[id]
	if plan == nil {
		fmt.Printf("ERROR: no check for property %q\n", id)
		return 2
	}
	tmp, _ := os.MkdirTemp("", "govc-"+id+"-")
	defer os.RemoveAll(tmp)
	d := &Discharger{Prelude: u.Prelude, Dir: tmp, TimeoutMs: 90000, Primary: []string{"z3-new", "z3", "cvc5"}, Stats: newStats(), Workers: runtime.NumCPU(), SlowBudget: 48, WallBudget: 25 * time.Minute}
	if *tier == "thorough" {
		d.TimeoutMs = 300000
		d.SecondGround = "cvc5"
		d.SlowBudget, d.WallBudget = 96, 3*time.Hour
	}
	var groups [][]*Oblig
	funcsUnder := map[string]bool{}
	axioms := map[string]bool{}
	var untrans []string
	famCounts := map[string]int{}
	var templates []*FamTemplate
	doneSym := map[string]bool{}
	scenCount := 0
	// expand package-wide and label-wide units
	wantG1 := false
	var units []Unit
	for _, un := range plan.Units {
		switch {
		case un.Alias != "":
			for _, k := range sortedKeys(u.Contracts) {
				if strings.HasPrefix(k, un.Alias+".") {
					ct := u.Contracts[k]
					if ct.ThoroughOnly && *tier != "thorough" {
						continue
					}
					units = append(units, Unit{Func: k, NoSym: ct.Abstract, Scen: ct.Abstract})
				}
			}
		case un.G1:
			wantG1 = true
		case un.LemmaLabel != "":
			for _, lm := range u.Lemmas {
				for _, l := range lm.Labels {
					if l == un.LemmaLabel {
						units = append(units, Unit{Lemma: lm.Name})
					}
				}
			}
		default:
			units = append(units, un)
		}
	}
	for _, un := range units {
		if un.Lemma != "" {
			var lm *Lemma
			for _, l := range u.Lemmas {
				if l.Name == un.Lemma {
					lm = l
				}
			}
			if lm == nil {
				u.problem("lemma %s not found in the contract files", un.Lemma)
				continue
			}
			if len(lm.Vars) > 0 {
				tm, err := u.lemmaTemplate(lm, st)
				if err != nil {
					u.problem("%v", err)
					continue
				}
				templates = append(templates, tm)
				u.Oracle.collectTemplate(tm)
				obs := tm.instances()
				famCounts[tm.Fn.Key+"/"+tm.Fam.Name] = len(obs)
				groups = append(groups, obs)
				continue
			}
			groups = append(groups, u.verifyLemma(un.Lemma))
			continue
		}
		fi := u.Funcs[un.Func]
		ct := u.Contracts[un.Func]
		if fi == nil && ct == nil {
			continue // optional member of a schema (e.g. IsValid on a base metric)
		}
		if fi == nil || fi.Contract == nil {
			if ct != nil {
				u.problem("function %s is under contract (%s) but does not exist in the current tree", un.Func, ct.Where)
			}
			continue
		}
		if fi.Contract.ThoroughOnly && *tier != "thorough" {
			continue
		}
		funcsUnder[un.Func] = true
		if !un.NoSym && !doneSym[un.Func] {
			doneSym[un.Func] = true
			var lbl map[string]bool
			if un.Labels != nil {
				lbl = map[string]bool{}
				for _, l := range un.Labels {
					lbl[l] = true
				}
			}
			r := u.verifySymbolic(fi, lbl)
			groups = append(groups, r.Obligs)
			for k := range r.Axioms {
				axioms[k] = true
			}
			for _, x := range r.Untrans {
				untrans = append(untrans, un.Func+": "+x)
			}
		}
		if un.Scen {
			for _, sc := range fi.Contract.Scenarios {
				r := u.verifyScenario(fi, sc)
				groups = append(groups, r.Obligs)
				for k := range r.Axioms {
					axioms[k] = true
				}
				for _, x := range r.Untrans {
					untrans = append(untrans, un.Func+" (scenario "+sc.Name+"): "+x)
				}
				scenCount++
			}
		}
		for _, fam := range fi.Contract.Families {
			if !hasFamily(un.Families, fam.Name) {
				continue
			}
			groups = append(groups, u.familyExhaustive(fi, fam))
			tm, err := u.familyTemplate(fi, fam, st)
			if err != nil {
				u.problem("family %s of %s: %v", fam.Name, un.Func, err)
				continue
			}
			templates = append(templates, tm)
			for k := range tm.Ctx.AxiomsUsed {
				axioms[k] = true
			}
			if tm.Missing {
				groups = append(groups, []*Oblig{{Name: fmt.Sprintf("%s#family:%s:cutpoint", un.Func, fam.Name), Kind: "cut", Goal: tFalse, Func: un.Func, Decls: tm.Ctx,
					Note: "the cut point / replaced call of the family was not reached on any path (or no obligation was generated)"}})
			}
			for _, x := range tm.Untrans {
				untrans = append(untrans, un.Func+" (family "+fam.Name+"): "+x)
			}
			u.Oracle.collectTemplate(tm)
			obs := tm.instances()
			famCounts[un.Func+"/"+fam.Name] = len(obs)
			groups = append(groups, obs)
		}
		for _, want := range un.Families {
			found := want == "*"
			for _, fam := range fi.Contract.Families {
				if fam.Name == want {
					found = true
				}
			}
			if !found {
				u.problem("family %s of %s is not declared in the contract files", want, un.Func)
			}
		}
	}
	// oracle tables
	for _, g := range groups {
		for _, o := range g {
			if o.Template == nil {
				u.Oracle.collect(o.Goal.S)
				for _, a := range o.Assumes {
					u.Oracle.collect(a.S)
				}
			}
		}
	}
	otext, err := u.Oracle.build(u.BasePrelude, tmp)
	if err != nil {
		u.problem("oracle: %v", err)
	}
	d.Prelude = u.BasePrelude + otext
	groups = append(groups, u.Oracle.Sanity)
	// prelude consistency (vacuity guard)
	groups = append(groups, []*Oblig{{Name: "prelude#consistent", Kind: "cover", Goal: tFalse, Labels: []string{"cover"}}})
	t0 := time.Now()
	d.discharge(groups)
	solveS := time.Since(t0).Seconds()
	if wantG1 {
		groups = append(groups, u.checkG1())
	}
	if id == "C11" || id == "C19" || id == "C12" {
		groups = append(groups, u.checkSentinels())
	}

	// translation cross-validation: a seeded random sample of DISCHARGED ground instances is executed on the real code and
	// the observed output is judged by the solver against the same postcondition (guards assumption A10: the proof and
	// the real code must agree on concrete inputs)
	xval, xdis := 0, 0
	var xsamples []interface{}
	{
		nPer := 24
		if *tier == "thorough" {
			nPer = 400
		}
		rng := rand.New(rand.NewSource(seed))
		byPkg := map[string][]*Oblig{}
		reqs := map[string][]map[string]interface{}{}
		obsv := map[*Oblig]string{}
		rqOf := map[*Oblig]map[string]interface{}{}
		for _, g := range groups {
			if len(g) == 0 || g[0].Template == nil || g[0].Template.Post.S == "" {
				continue
			}
			if _, r, _ := buildRequest(g[0]); r == nil {
				continue
			}
			if op, _ := func() (string, bool) { _, r, _ := buildRequest(g[0]); s, ok := r["op"].(string); return s, ok }(); op == "find" && *tier != "thorough" {
				continue // intermediate-value searches enumerate up to millions of vectors: thorough tier only
			}
			for k := 0; k < nPer && k < len(g); k++ {
				o := g[rng.Intn(len(g))]
				if !o.ok() {
					continue
				}
				p, r, ob := buildRequest(o)
				if r == nil {
					continue
				}
				byPkg[p] = append(byPkg[p], o)
				reqs[p] = append(reqs[p], r)
				obsv[o] = ob
				rqOf[o] = r
			}
		}
		for p, obs := range byPkg {
			ans, _, err := runHarness(*repo, p, reqs[p])
			if err != nil {
				u.problem("translation cross-validation: harness for %s failed: %v", p, err)
				continue
			}
			for j, o := range obs {
				if !ans[j].Ok {
					continue // instance not attainable by a vector
				}
				_, bad, desc := finishReplay(d, o, p, rqOf[o], obsv[o], ans[j])
				xval++
				if len(xsamples) < 3 {
					xsamples = append(xsamples, map[string]interface{}{"instance": o.Instance, "real_code": desc, "agrees_with_proof": !bad})
				}
				if bad {
					xdis++
					u.problem("translation cross-validation: instance [%s] of %s is discharged but the real code's output violates the postcondition (%s)", o.Instance, o.Name, desc)
				}
			}
		}
	}

	// verdict
	known, fixedLines := loadKnownFindings(filepath.Join(verifRoot, "known-findings.txt"))
	total, discharged, skipped := 0, 0, 0
	byKind := map[string]int{}
	var failed []*Oblig
	knownHit := map[string]bool{}
	for _, g := range groups {
		for _, o := range g {
			total++
			byKind[o.Kind]++
			if o.ok() {
				discharged++
				continue
			}
			if o.Result == "skipped" {
				skipped++
				continue
			}
			failed = append(failed, o)
		}
	}
	for _, e := range envCheck() {
		u.problem("%s", e)
	}
	for _, x := range untrans {
		u.problem("construct outside the verified subset: %s", x)
	}
	if *listFail {
		// batch replay of all failing ground instances (one go test run per package)
		byPkg := map[string][]int{}
		reqs := map[string][]map[string]interface{}{}
		obsv := make([]string, len(failed))
		rq := make([]map[string]interface{}, len(failed))
		pk := make([]string, len(failed))
		for i, o := range failed {
			if o.Template == nil {
				continue
			}
			p, r, ob := buildRequest(o)
			if r == nil {
				continue
			}
			pk[i], rq[i], obsv[i] = p, r, ob
			byPkg[p] = append(byPkg[p], i)
			reqs[p] = append(reqs[p], r)
		}
		desc := make([]string, len(failed))
		for p, idxs := range byPkg {
			ans, _, err := runHarness(*repo, p, reqs[p])
			if err != nil {
				fmt.Println("harness:", err)
				continue
			}
			for j, i := range idxs {
				_, ok, dsc := finishReplay(d, failed[i], p, rq[i], obsv[i], ans[j])
				desc[i] = dsc
				if !ok {
					desc[i] += " NOT-CONFIRMED"
				}
			}
		}
		for i, o := range failed {
			fmt.Printf("finding: property=%s obligation=%s case=[%s] %s\n", id, o.Name, o.Instance, desc[i])
		}
		return 0
	}
	var unexplained []*Oblig
	knownCount := 0
	for _, o := range failed {
		matched := false
		for _, kf := range known {
			if kf.Property == id && kf.Obligation == o.Name && kf.Case == o.Instance {
				matched = true
				knownHit[kf.Text] = true
			}
		}
		if matched {
			knownCount++
			continue
		}
		unexplained = append(unexplained, o)
	}
	violations := 0
	undecided := 0
	if knownCount > 0 {
		for _, kf := range known {
			if knownHit[kf.Text] {
				fmt.Printf("KNOWN-FINDING: %s\n", strings.TrimPrefix(kf.Text, "finding: "))
			}
		}
	}
	replayDir := filepath.Join(verifRoot, "replays")
	if len(unexplained) > 0 || len(u.Problems) > 0 {
		os.MkdirAll(replayDir, 0o755)
	}
	// up to 12 failed obligations are replayed and printed: spread evenly over the failed list (consecutive ground
	// instances often share an unattainable intermediate value), every obligation is counted
	violations += len(unexplained)
	pick := unexplained
	if len(unexplained) > 12 {
		pick = nil
		step := float64(len(unexplained)) / 12.0
		for i := 0; i < 12; i++ {
			pick = append(pick, unexplained[int(float64(i)*step)])
		}
	}
	shown := 0
	for _, o := range pick {
		shown++
		path, confirmed := writeReplay(u, st, d, id, o, replayDir, *repo)
		if id == "C16" && (o.Kind == "frame" || o.Kind == "g1") && !confirmed {
			// the refuted obligation is only a sufficient condition for C16: without an observed race it is reported as
			// undecided, not as a violation (DESIGN.md 4.2 rule 4)
			fmt.Printf("UNDECIDED property=%s obligation=%s %s (sufficient condition failed; the race replay observed no race: %s)\n", id, o.Name, o.Where, path)
			violations--
			undecided++
			continue
		}
		if confirmed {
			fmt.Printf("VIOLATION property=%s replay=%s\n", id, path)
		} else {
			fmt.Printf("VIOLATION property=%s replay=%s no-failing-input-found\n", id, path)
		}
		fmt.Printf("  obligation %s [%s] %s: %s\n", o.Name, o.Instance, o.Where, o.Result)
	}
	if len(unexplained) > shown {
		fmt.Printf("  ... and %d more failed obligations\n", len(unexplained)-shown)
	}
	for i, pr := range u.Problems {
		violations++
		if i >= 12 {
			continue // counted, not printed
		}
		path := filepath.Join(replayDir, fmt.Sprintf("%s-problem-%d.txt", id, i))
		probe, hit := "", false
		if i < 6 {
			probe, hit = probeProblem(u, st, *repo, pr, id)
		}
		os.WriteFile(path, []byte("obligation could not be generated or decided on this tree (it is generated and discharged on the unchanged tree):\n"+pr+"\n\n---- replay on the real code ----\n"+probe), 0o644)
		if hit {
			fmt.Printf("VIOLATION property=%s replay=%s\n  %s\n", id, path, pr)
		} else {
			fmt.Printf("VIOLATION property=%s replay=%s no-failing-input-found\n  %s\n", id, path, pr)
		}
	}
	raceNote := ""
	if id == "C16" && *tier == "thorough" {
		rep, hit := raceReplay(*repo)
		raceNote = rep
		if hit {
			violations++
			os.MkdirAll(replayDir, 0o755)
			pth := filepath.Join(replayDir, "C16-race.txt")
			os.WriteFile(pth, []byte(rep), 0o644)
			fmt.Printf("VIOLATION property=C16 replay=%s\n", pth)
		}
	}
	// thorough tier: end-to-end cross-check of the real code by the replay probes of the property (bounded, supplementary;
	// the verdict of the proof obligations above is not changed by a silent probe)
	probeNotes := map[string]string{}
	if *tier == "thorough" {
		type pr struct {
			name string
			f    func() (string, bool)
		}
		var ps []pr
		v3s := pr{"score probe v3", func() (string, bool) { return scoreProbe(u, st, *repo, scoreAspect(id)) }}
		v2s := pr{"score probe v2", func() (string, bool) { return v2ScoreProbe(u, st, *repo, scoreAspect(id)) }}
		w3 := pr{"decoder witness search v3", func() (string, bool) { return decodeWitnessFor(st, *repo, "v3/metric", id) }}
		w2 := pr{"decoder witness search v2", func() (string, bool) { return decodeWitnessFor(st, *repo, "v2/metric", id) }}
		switch id {
		case "C01", "C02", "C03":
			ps = []pr{v3s}
		case "C04", "C05":
			ps = []pr{v2s}
		case "C06", "C13", "C14":
			ps = []pr{v3s, v2s}
		case "C07":
			ps = []pr{w3}
		case "C08":
			ps = []pr{w2}
		case "C09", "C10", "C11":
			ps = []pr{w3, w2}
			if id == "C11" {
				ps = append(ps, pr{"sentinel probe", func() (string, bool) { return sentinelProbe(*repo) }})
			}
		case "C12":
			ps = []pr{{"robustness probe v3", func() (string, bool) { return robustProbe(*repo, "v3/metric") }}, {"robustness probe v2", func() (string, bool) { return robustProbe(*repo, "v2/metric") }}}
		case "C15":
			ps = []pr{{"purity probe v3", func() (string, bool) { return purityProbe(*repo, "v3/metric") }}, {"purity probe v2", func() (string, bool) { return purityProbe(*repo, "v2/metric") }}, {"purity probe report", func() (string, bool) { return purityProbe(*repo, "v3/report") }}}
		case "C20":
			ps = []pr{{"table probe", func() (string, bool) { return tablesProbe(u, st, *repo) }}}
		case "C17":
			ps = []pr{{"report probe", func() (string, bool) { return reportProbe(st, *repo) }}}
		case "C18":
			ps = []pr{{"name probe", func() (string, bool) { return namesProbe(u, *repo) }}}
		case "C19":
			ps = []pr{{"template probe", func() (string, bool) { return templateProbe(*repo) }}}
		}
		for _, p := range ps {
			rep, hit := p.f()
			probeNotes[p.name] = tail(strings.TrimSpace(rep), 400)
			if hit {
				violations++
				os.MkdirAll(replayDir, 0o755)
				pth := filepath.Join(replayDir, id+"-"+sanitize(p.name)+".txt")
				os.WriteFile(pth, []byte("end-to-end cross-check of the thorough tier ("+p.name+") found a failing input although no obligation failed:\n"+rep), 0o644)
				fmt.Printf("VIOLATION property=%s replay=%s\n  %s\n", id, pth, p.name)
			}
		}
	}
	// vacuity: minimum obligation counts
	if min, ok := expectedMin[id]; ok && total < min {
		violations++
		fmt.Printf("VIOLATION property=%s replay=%s no-failing-input-found\n  only %d obligations generated, expected at least %d (vacuity guard)\n", id, filepath.Join(replayDir, id+"-vacuity.txt"), total, min)
		os.MkdirAll(replayDir, 0o755)
		os.WriteFile(filepath.Join(replayDir, id+"-vacuity.txt"), []byte(fmt.Sprintf("only %d obligations generated, expected at least %d\n", total, min)), 0o644)
	}

	// evidence
	var fl []string
	for k := range funcsUnder {
		fl = append(fl, k)
	}
	sort.Strings(fl)
	var samples []interface{}
	perKindSample := map[string]int{}
	for _, g := range groups {
		for _, o := range g {
			if perKindSample[o.Kind] >= 2 {
				continue
			}
			perKindSample[o.Kind]++
			txt := o.Goal.S
			if len(txt) > 600 {
				txt = txt[:600] + " ..."
			}
			samples = append(samples, map[string]interface{}{"obligation": o.Name, "kind": o.Kind, "instance": o.Instance, "where": o.Where, "result": o.Result, "solver": o.Solver, "goal_smt": txt, "assumptions": len(o.Assumes)})
		}
	}
	var tdefs []interface{}
	for _, tm := range templates {
		tdefs = append(tdefs, map[string]interface{}{"family": tm.Fn.Key + "/" + tm.Fam.Name, "instances": famCounts[tm.Fn.Key+"/"+tm.Fam.Name], "parts": tm.Parts, "template_bytes": len(tm.Body.S), "exhaustive": true})
	}
	var kfl []string
	for k := range knownHit {
		kfl = append(kfl, k)
	}
	sort.Strings(kfl)
	trusted := []string{"govc VC generator (/verif/govc)", "z3-new 5.1.0 (primary)", "z3 4.8.12 / cvc5 1.0.3 (fallback; cvc5 re-checks ground families in the thorough tier)", "spec prelude /verif/spec (FIRST equations and tables)", "go/types, go/packages (x/tools v0.29.0)"}
	ev := Evidence{PropertyID: id, Tier: *tier, Seed: seed, Level: "proof", WallS: time.Since(start).Seconds(), Violations: violations,
		Assumptions: plan.assumptionList(axioms),
		Coverage: map[string]interface{}{
			"obligations":                        total - knownCount,
			"discharged":                         discharged,
			"obligations_generated":              total,
			"traces_validated_against_impl":      xval,
			"translation_disagreements":          xdis,
			"translation_samples":                xsamples,
			"refuted_known_findings":             knownCount,
			"undecided":                          undecided,
			"not_attempted_after_failure_budget": skipped,
			"checker_cmd":                        fmt.Sprintf("bin/verif check %s --tier %s   (z3-new -smt2 on generated SMT-LIB; FP bit-precise)", id, *tier),
			"trusted_base":                       trusted,
			"samples":                            samples,
			"functions_under_contract":           fl,
			"obligations_by_kind":                byKind,
			"ground_families":                    tdefs,
			"scenarios_executed":                 scenCount,
			"exhaustive":                         len(templates) > 0, // ground families enumerate their finite domains completely
			"solver_queries":                     d.Stats.BySolver,
			"solver_ms":                          d.Stats.MillisBy,
			"solver_processes":                   d.Stats.Processes,
			"solve_wall_s":                       solveS,
			"oracle_tables":                      map[string]int{"pow13": len(u.Oracle.PowTab[13]), "pow15": len(u.Oracle.PowTab[15]), "formatfloat": len(u.Oracle.FmtTab)},
			"meta_steps":                         plan.Meta,
			"known_findings":                     kfl,
			"fixed_findings":                     fixedLines,
			"integers":                           "enumeration values are mathematical Int (only compared); the one integer computation (roundUp's %) is on 64-bit vectors; floating point is bit-precise Float64, never mathematical",
			"contract_files":                     contractFiles(u),
			"race_detector_cross_check":          raceNote,
			"end_to_end_probes":                  probeNotes,
		},
	}
	if !*noEvidence {
		os.MkdirAll(*evdir, 0o755)
		b, _ := json.MarshalIndent(ev, "", " ")
		os.WriteFile(filepath.Join(*evdir, id+".json"), b, 0o644)
	}
	if skipped > 0 {
		fmt.Printf("  %d obligations were not attempted: the failure budget (%d obligations without a definite answer, or %s of wall time with a failure) was used up by the obligations reported above\n", skipped, d.SlowBudget, d.WallBudget)
	}
	fmt.Printf("%s: %d obligations, %d discharged, %d known findings, %d violations, %.1fs (%s tier)\n", id, total, discharged, knownCount, violations, time.Since(start).Seconds(), *tier)
	if violations > 0 {
		return 1
	}
	return 0
}

var expectedMin = map[string]int{"C01": 5000, "C02": 15000, "C03": 340000, "C04": 10000, "C05": 70000, "C20": 200, "C06": 400000, "C13": 400000, "C07": 3000, "C08": 2500, "C09": 5000, "C10": 6000, "C11": 5000, "C12": 8000, "C14": 400000, "C18": 400, "C15": 9000, "C16": 9000, "C17": 300, "C19": 30}

func contractFiles(u *Universe) []string {
	seen := map[string]bool{}
	for _, c := range u.Contracts {
		f := c.Where
		if i := strings.LastIndex(f, ":"); i > 0 {
			f = f[:i]
		}
		seen[f] = true
	}
	var out []string
	for f := range seen {
		out = append(out, f)
	}
	sort.Strings(out)
	return out
}

func (u *Universe) verifyLemma(name string) []*Oblig {
	for _, lm := range u.Lemmas {
		if lm.Name != name {
			continue
		}
		fi := &FuncInfo{Key: "lemma:" + name}
		c := newCtx(u, fi)
		p := &Path{C: c, Vars: nil, Heap: map[string]Term{}, CallOrd: map[string]int{}, Facts: map[string]Term{}, CutSeen: map[string]bool{}}
		env := &SpecEnv{C: c, P: p, Old: map[string]Term{}, Vars: map[string]SV{}, Alias: lm.Alias}
		g := env.evalBool(lm.Expr)
		if env.Err != nil {
			u.problem("lemma %s: %v", name, env.Err)
			return []*Oblig{}
		}
		return []*Oblig{{Name: "lemma:" + name, Kind: "lemma", Goal: g, Func: fi.Key, Decls: c, Labels: lm.Labels, Where: lm.Src}}
	}
	return nil
}
