package main

// C18 probe, used as replay for refuted name obligations: every exported name function of v3/report/names (taken from the
// current tree's type information) is called with language tags whose language is neither English nor Japanese (incl.
// script and region variants, undetermined) and must return exactly the English name; English and Japanese names must be
// non-empty for the values -1..9; defined values must have pairwise different names per language. Used only to confirm
// refutations.

import (
	"fmt"
	"go/types"
	"sort"
	"strings"
	"sync"
)

var namesProbeCache sync.Map

func namesProbe(u *Universe, repo string) (string, bool) {
	if v, ok := namesProbeCache.Load(repo); ok {
		r := v.([2]interface{})
		return r[0].(string), r[1].(bool)
	}
	rep, hit := namesProbeRun(u, repo)
	namesProbeCache.Store(repo, [2]interface{}{rep, hit})
	return rep, hit
}

func namesProbeRun(u *Universe, repo string) (string, bool) {
	head := "name probe on the real code (v3/report/names): every exported name function x 16 language tags whose language is neither English nor Japanese (fr, de, ko, zh, zh-Hant, pt-BR, und, ko-Jpan, zh-Jpan, fr-Jpan, de-Latn, ...) must give the English name; English/Japanese names non-empty for values -1..9:\n"
	var keys []string
	for k, fi := range u.Funcs {
		if strings.HasPrefix(k, "nam.") && fi.Obj.Exported() && fi.Sig.Recv() == nil {
			keys = append(keys, k)
		}
	}
	sort.Strings(keys)
	var calls strings.Builder
	n := 0
	for _, k := range keys {
		fi := u.Funcs[k]
		sig := fi.Sig
		if sig.Results().Len() != 1 || !types.Identical(sig.Results().At(0).Type(), types.Typ[types.String]) {
			continue
		}
		isTag := func(t types.Type) bool { return strings.HasSuffix(t.String(), "language.Tag") }
		switch {
		case sig.Params().Len() == 1 && isTag(sig.Params().At(0).Type()):
			fmt.Fprintf(&calls, "\tvrTitle(%q, names.%s)\n", fi.Obj.Name(), fi.Obj.Name())
			n++
		case sig.Params().Len() == 2 && isTag(sig.Params().At(1).Type()):
			pt := sig.Params().At(0).Type()
			if b, ok := pt.Underlying().(*types.Basic); !ok || b.Info()&types.IsInteger == 0 {
				continue
			}
			tn := types.TypeString(pt, func(p *types.Package) string { return p.Name() })
			fmt.Fprintf(&calls, "\tvrValue(%q, func(v int, l language.Tag) string { return names.%s(%s(v), l) })\n", fi.Obj.Name(), fi.Obj.Name(), tn)
			n++
		}
	}
	src := `package names_test

import (
	"fmt"
	"testing"

	"github.com/goark/go-cvss/v3/metric"
	"github.com/goark/go-cvss/v3/report/names"
	"golang.org/x/text/language"
)

var _ = metric.SeverityNone

var vrHit = false

func vrTags() []language.Tag {
	var out []language.Tag
	for _, s := range []string{"fr", "de", "ko", "zh", "zh-Hant", "pt-BR", "und", "ko-Jpan", "zh-Jpan", "fr-Jpan", "de-Latn", "ko-KR", "zh-JP", "fr-US", "ain", "mul"} {
		t, err := language.Parse(s)
		if err != nil {
			continue
		}
		if b, _ := t.Base(); b.String() == "en" || b.String() == "ja" {
			continue
		}
		out = append(out, t)
	}
	return append(out, language.Und, language.French, language.Korean)
}

func vrTitle(name string, f func(language.Tag) string) {
	if vrHit {
		return
	}
	en, ja := f(language.English), f(language.Japanese)
	if en == "" || ja == "" {
		fmt.Printf("NAMES-HIT %s: empty name (English %q, Japanese %q)\n", name, en, ja)
		vrHit = true
		return
	}
	for _, t := range vrTags() {
		if g := f(t); g != en {
			fmt.Printf("NAMES-HIT %s(%v) = %q, the English name is %q (the tag's language is neither English nor Japanese)\n", name, t, g, en)
			vrHit = true
			return
		}
	}
}

func vrValue(name string, f func(int, language.Tag) string) {
	if vrHit {
		return
	}
	for v := -1; v <= 9; v++ {
		en, ja := f(v, language.English), f(v, language.Japanese)
		if en == "" || ja == "" {
			fmt.Printf("NAMES-HIT %s(%d): empty name (English %q, Japanese %q)\n", name, v, en, ja)
			vrHit = true
			return
		}
		for _, t := range vrTags() {
			if g := f(v, t); g != en {
				fmt.Printf("NAMES-HIT %s(%d, %v) = %q, the English name is %q (the tag's language is neither English nor Japanese)\n", name, v, t, g, en)
				vrHit = true
				return
			}
		}
	}
}

func TestVerifNames(t *testing.T) {
` + calls.String() + `	if !vrHit {
		fmt.Println("NAMES-NONE all names agree")
	}
}
`
	if n == 0 {
		return head + "probe did not run (no exported name function found in the current tree)\n", false
	}
	out, err := runOverlayTest(repo, "v3/report/names", src, "TestVerifNames")
	switch {
	case strings.Contains(out, "NAMES-HIT"):
		i := strings.Index(out, "NAMES-HIT")
		j := strings.Index(out[i:], "\n")
		return head + out[i:i+j] + "\n=> CONFIRMED\n", true
	case strings.Contains(out, "NAMES-NONE"):
		return head + fmt.Sprintf("no difference observed in this probe (%d functions)\n", n), false
	}
	return head + "probe did not run to completion (" + errString(err) + "): " + tail(out, 800) + "\n", false
}
