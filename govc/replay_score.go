package main

// Score probe, used as replay when the obligations of a score property could not be generated (a construct outside the
// subset inside Score, Severity, ...): vectors are decoded by the real code at every level and the scores and severities
// are compared with the specification prelude evaluated by the solver on the written codes (v3: every base vector of both
// versions plus seeded random temporal / environmental vectors; v2: base and temporal groups against the near1 relation).
// It never decides a check; it only turns a refutation into a concrete failing vector.

import (
	"bytes"
	"context"
	"fmt"
	"math"
	"math/rand"
	"os"
	"os/exec"
	"strconv"
	"strings"
	"sync"
	"time"
)

type scoreCase struct {
	vector string
	level  string // decoder used: base | temporal | environmental
	terms  []string
}

func v3ScoreCases(st *SpecTables) []scoreCase {
	codes := func(name string) []string {
		var out []string
		for _, v := range st.V3.metric(name).Values {
			out = append(out, v.Code)
		}
		return out
	}
	var cases []scoreCase
	mk := func(ver string, tok map[string]string, level string) scoreCase {
		order := []string{"AV", "AC", "PR", "UI", "S", "C", "I", "A", "E", "RL", "RC", "CR", "IR", "AR", "MAV", "MAC", "MPR", "MUI", "MS", "MC", "MI", "MA"}
		v := "CVSS:" + ver
		for _, n := range order {
			if c, ok := tok[n]; ok {
				v += "/" + n + ":" + c
			}
		}
		p := func(n string) string {
			c, ok := tok[n]
			if !ok {
				c = "X"
			}
			return fmt.Sprintf("(parse_v3_%s \"%s\")", n, c)
		}
		base := strings.Join([]string{p("AV"), p("AC"), p("PR"), p("UI"), p("S"), p("C"), p("I"), p("A")}, " ")
		kb := "(v3_base_k " + base + ")"
		kt := fmt.Sprintf("(v3_outer_k %s %s %s %s)", kb, p("E"), p("RL"), p("RC"))
		eff := func(m, b string) string { return fmt.Sprintf("(eff_v3_%s %s %s)", b, p(m), p(b)) }
		ke := fmt.Sprintf("(v3_env_k (parse_v3_VER \"%s\") %s %s (eff_v3_PR %s %s) %s %s %s %s %s %s %s %s %s %s %s)", ver,
			eff("MAV", "AV"), eff("MAC", "AC"), p("MPR"), p("PR"), eff("MUI", "UI"), eff("MS", "S"), eff("MC", "C"), eff("MI", "I"), eff("MA", "A"),
			p("CR"), p("IR"), p("AR"), p("E"), p("RL"), p("RC"))
		return scoreCase{vector: v, level: level, terms: []string{kb, kt, ke}}
	}
	for _, ver := range []string{"3.0", "3.1"} {
		for _, av := range codes("AV") {
			for _, ac := range codes("AC") {
				for _, pr := range codes("PR") {
					for _, ui := range codes("UI") {
						for _, s := range codes("S") {
							for _, c := range codes("C") {
								for _, i := range codes("I") {
									for _, a := range codes("A") {
										cases = append(cases, mk(ver, map[string]string{"AV": av, "AC": ac, "PR": pr, "UI": ui, "S": s, "C": c, "I": i, "A": a}, "environmental"))
									}
								}
							}
						}
					}
				}
			}
		}
	}
	rng := rand.New(rand.NewSource(20261001))
	pick := func(n string) string { cs := codes(n); return cs[rng.Intn(len(cs))] }
	for k := 0; k < 3000; k++ {
		tok := map[string]string{}
		for _, n := range []string{"AV", "AC", "PR", "UI", "S", "C", "I", "A"} {
			tok[n] = pick(n)
		}
		opt := []string{"E", "RL", "RC"}
		if k%3 != 0 {
			opt = append(opt, "CR", "IR", "AR", "MAV", "MAC", "MPR", "MUI", "MS", "MC", "MI", "MA")
		}
		for _, n := range opt {
			if rng.Intn(4) != 0 {
				tok[n] = pick(n)
			}
		}
		cases = append(cases, mk([]string{"3.0", "3.1"}[k%2], tok, "environmental"))
	}
	return cases
}

var scoreProbeCache sync.Map

// scoreProbe: v3 only (the v2 equations are relations with ties; v2 refutations replay through the family recipes).
func scoreProbe(u *Universe, st *SpecTables, repo string) (string, bool) {
	if v, ok := scoreProbeCache.Load(repo); ok {
		r := v.([2]interface{})
		return r[0].(string), r[1].(bool)
	}
	rep, hit := scoreProbeRun(u, st, repo)
	scoreProbeCache.Store(repo, [2]interface{}{rep, hit})
	return rep, hit
}

func scoreProbeRun(u *Universe, st *SpecTables, repo string) (string, bool) {
	head := "score probe on the real code (v3: all 5,184 base vectors and 3,000 seeded random temporal/environmental vectors decoded by the Environmental decoder; oracle: the specification prelude evaluated by z3 on the written codes; base, temporal and environmental score and the three severities are compared):\n"
	cases := v3ScoreCases(st)
	// expected values
	var sb strings.Builder
	sb.WriteString(u.Prelude)
	for _, c := range cases {
		for _, t := range c.terms {
			fmt.Fprintf(&sb, "(simplify %s)\n", t)
		}
	}
	tmp, err := os.MkdirTemp("", "govc-scoreprobe-")
	if err != nil {
		return head + err.Error(), false
	}
	defer os.RemoveAll(tmp)
	fn := tmp + "/expected.smt2"
	os.WriteFile(fn, []byte(sb.String()), 0o644)
	ctx, cancel := context.WithTimeout(context.Background(), 300*time.Second)
	defer cancel()
	cmd := exec.CommandContext(ctx, "z3-new", "-smt2", fn)
	var out bytes.Buffer
	cmd.Stdout = &out
	cmd.Stderr = &out
	_ = cmd.Run()
	var exp []int
	for _, ln := range strings.Split(out.String(), "\n") {
		ln = strings.TrimSpace(ln)
		if ln == "" {
			continue
		}
		ln = strings.ReplaceAll(strings.ReplaceAll(strings.ReplaceAll(ln, "(", ""), ")", ""), " ", "")
		n, err := strconv.Atoi(ln)
		if err != nil {
			return head + "probe did not run to completion (the solver did not evaluate the specification to a numeral: " + tail(out.String(), 300) + ")\n", false
		}
		exp = append(exp, n)
	}
	if len(exp) != 3*len(cases) {
		return head + fmt.Sprintf("probe did not run to completion (%d of %d expected values)\n", len(exp), 3*len(cases)), false
	}
	var reqs []map[string]interface{}
	for _, c := range cases {
		reqs = append(reqs, map[string]interface{}{"op": "decode", "level": c.level, "vector": c.vector})
	}
	ans, _, err := runHarness(repo, "v3/metric", reqs)
	if err != nil || len(ans) != len(cases) {
		return head + "probe did not run to completion (" + errString(err) + ")\n", false
	}
	band := func(k int) string {
		switch {
		case k <= 0:
			return "None"
		case k < 40:
			return "Low"
		case k < 70:
			return "Medium"
		case k < 90:
			return "High"
		}
		return "Critical"
	}
	for i, c := range cases {
		a := ans[i]
		if a.Panic != "" {
			return head + fmt.Sprintf("SCORE-HIT vector %s: the real code panics: %s\n=> CONFIRMED\n", c.vector, a.Panic), true
		}
		if !a.Ok || a.Err != "" {
			return head + fmt.Sprintf("SCORE-HIT vector %s: a well-formed vector is rejected: %s\n=> CONFIRMED\n", c.vector, a.Err), true
		}
		got := []float64{a.Base, a.Temporal, a.Env}
		names := []string{"base", "temporal", "environmental"}
		for j := 0; j < 3; j++ {
			want := float64(exp[3*i+j]) / 10
			if got[j] != want || math.Signbit(got[j]) {
				return head + fmt.Sprintf("SCORE-HIT vector %s: %s score of the real code is %v, the specification gives %v\n=> CONFIRMED\n", c.vector, names[j], got[j], want), true
			}
			if len(a.Sev) == 3 && !strings.EqualFold(a.Sev[j], band(exp[3*i+j])) {
				return head + fmt.Sprintf("SCORE-HIT vector %s: %s severity of the real code is %s for score %v, the rating scale gives %s\n=> CONFIRMED\n", c.vector, names[j], a.Sev[j], got[j], band(exp[3*i+j])), true
			}
		}
	}
	return head + fmt.Sprintf("no difference observed in this probe (%d vectors)\n", len(cases)), false
}

// ---------------------------------------------------------------------------
// v2: the equations are relations (a nearest tenth; both neighbours on an exact half), stage by stage on the rounded
// result of the previous stage. The intermediate adjusted scores are not observable, so they are existentially chosen
// among the (at most two) nearest tenths. Instances recorded as known findings (C05, stage adjbase) are skipped, so a hit
// is never one of them.

type v2Case struct {
	vector  string
	tok     map[string]string
	hasT    bool
	hasE    bool
	instKey string
}

func v2ScoreCases(st *SpecTables) []v2Case {
	codes := func(name string) []string {
		var out []string
		for _, v := range st.V2.metric(name).Values {
			out = append(out, v.Code)
		}
		return out
	}
	var cases []v2Case
	mk := func(tok map[string]string, hasT, hasE bool) v2Case {
		v := ""
		for _, n := range []string{"AV", "AC", "Au", "C", "I", "A"} {
			v += "/" + n + ":" + tok[n]
		}
		v = v[1:]
		if hasT {
			v += "/E:" + tok["E"] + "/RL:" + tok["RL"] + "/RC:" + tok["RC"]
		}
		key := ""
		if hasE {
			v += "/CDP:" + tok["CDP"] + "/TD:" + tok["TD"] + "/CR:" + tok["CR"] + "/IR:" + tok["IR"] + "/AR:" + tok["AR"]
			key = fmt.Sprintf("m.AV=%s m.AC=%s m.Au=%s m.C=%s m.I=%s m.A=%s m.CR=%s m.IR=%s m.AR=%s", tok["AV"], tok["AC"], tok["Au"], tok["C"], tok["I"], tok["A"], tok["CR"], tok["IR"], tok["AR"])
		}
		return v2Case{vector: v, tok: tok, hasT: hasT, hasE: hasE, instKey: key}
	}
	rng := rand.New(rand.NewSource(20261002))
	pick := func(n string) string { cs := codes(n); return cs[rng.Intn(len(cs))] }
	for _, av := range codes("AV") {
		for _, ac := range codes("AC") {
			for _, au := range codes("Au") {
				for _, c := range codes("C") {
					for _, i := range codes("I") {
						for _, a := range codes("A") {
							b := map[string]string{"AV": av, "AC": ac, "Au": au, "C": c, "I": i, "A": a}
							cases = append(cases, mk(b, false, false))
							for _, sp := range [][]string{{"N", "H", "ND", "ND", "ND"}, {"ND", "ND", "ND", "ND", "ND"}, {"L", "M", "ND", "ND", "ND"}, {"ND", "ND", "M", "M", "M"}, {"H", "L", "H", "H", "H"}, {"MH", "H", "L", "L", "L"}} {
								t := map[string]string{"CDP": sp[0], "TD": sp[1], "CR": sp[2], "IR": sp[3], "AR": sp[4], "E": "F", "RL": "OF", "RC": "C"}
								for k, v := range b {
									t[k] = v
								}
								cases = append(cases, mk(t, len(cases)%2 == 0, true))
							}
							for r := 0; r < 5; r++ {
								t := map[string]string{}
								for k, v := range b {
									t[k] = v
								}
								for _, n := range []string{"E", "RL", "RC", "CDP", "TD", "CR", "IR", "AR"} {
									t[n] = pick(n)
								}
								cases = append(cases, mk(t, r%2 == 0 || r == 3, r >= 1))
							}
						}
					}
				}
			}
		}
	}
	return cases
}

func knownInstanceKeys() map[string]bool {
	out := map[string]bool{}
	known, _ := loadKnownFindings(verifRoot + "/known-findings.txt")
	for _, kf := range known {
		out[kf.Case] = true
	}
	return out
}

func v2ScoreProbe(u *Universe, st *SpecTables, repo string) (string, bool) {
	key := "v2|" + repo
	if v, ok := scoreProbeCache.Load(key); ok {
		r := v.([2]interface{})
		return r[0].(string), r[1].(bool)
	}
	rep, hit := v2ScoreProbeRun(u, st, repo)
	scoreProbeCache.Store(key, [2]interface{}{rep, hit})
	return rep, hit
}

func v2ScoreProbeRun(u *Universe, st *SpecTables, repo string) (string, bool) {
	head := "score probe on the real code (v2: all 729 base vectors, each also with 6 fixed and 5 seeded random temporal / environmental groups, decoded by the Environmental decoder; oracle: the specification prelude evaluated by z3: every stage is a nearest tenth of the equation applied to the rounded result of the previous stage; instances listed as known findings are skipped):\n"
	cases := v2ScoreCases(st)
	known := knownInstanceKeys()
	var reqs []map[string]interface{}
	for _, c := range cases {
		reqs = append(reqs, map[string]interface{}{"op": "decode", "vector": c.vector})
	}
	ans, _, err := runHarness(repo, "v2/metric", reqs)
	if err != nil || len(ans) != len(cases) {
		return head + "probe did not run to completion (" + errString(err) + ")\n", false
	}
	grid := func(x float64) (int, bool) {
		k := math.Round(x * 10)
		return int(k), x == k/10 || (k == 0 && x == 0)
	}
	var sb strings.Builder
	sb.WriteString(u.Prelude)
	var idx []int
	var obs [][3]int
	for i, c := range cases {
		a := ans[i]
		if a.Panic != "" {
			return head + fmt.Sprintf("SCORE-HIT vector %s: the real code panics: %s\n=> CONFIRMED\n", c.vector, a.Panic), true
		}
		if !a.Ok || a.Err != "" {
			return head + fmt.Sprintf("SCORE-HIT vector %s: a canonical vector is rejected: %s\n=> CONFIRMED\n", c.vector, a.Err), true
		}
		if c.hasE && known[c.instKey] {
			continue
		}
		kb, ok1 := grid(a.Base)
		kt, ok2 := grid(a.Temporal)
		ke, ok3 := grid(a.Env)
		if !ok1 || !ok2 || !ok3 {
			return head + fmt.Sprintf("SCORE-HIT vector %s: a score of the real code is not a multiple of 0.1: base %v temporal %v environmental %v\n=> CONFIRMED\n", c.vector, a.Base, a.Temporal, a.Env), true
		}
		p := func(n string) string { return fmt.Sprintf("(parse_v2_%s \"%s\")", n, c.tok[n]) }
		base := strings.Join([]string{p("AV"), p("AC"), p("Au"), p("C"), p("I"), p("A")}, " ")
		okBase := fmt.Sprintf("(round1_ok (v2_base_x %s) %d)", base, kb)
		okTemp := fmt.Sprintf("(= %d %d)", kt, kb)
		trc := ""
		if c.hasT {
			trc = fmt.Sprintf("%s %s %s", p("E"), p("RL"), p("RC"))
			okTemp = fmt.Sprintf("(round1_ok (v2_temporal_x %d %s) %d)", kb, trc, kt)
		}
		okEnv := fmt.Sprintf("(= %d %d)", ke, kt)
		if c.hasE {
			xa := fmt.Sprintf("(v2_adjbase_x %s %s %s %s)", base, p("CR"), p("IR"), p("AR"))
			fin := func(k string) string {
				return fmt.Sprintf("(round1_ok (v2_env_x %s %s %s) %d)", k, p("CDP"), p("TD"), ke)
			}
			stage2 := func(ka string) string {
				if !c.hasT {
					return fin(ka)
				}
				xt := fmt.Sprintf("(v2_temporal_x %s %s)", ka, trc)
				return fmt.Sprintf("(let ((kt1 (to_int (* 10.0 %s)))) (or (and (round1_ok %s kt1) %s) (and (round1_ok %s (+ kt1 1)) %s)))", xt, xt, fin("kt1"), xt, fin("(+ kt1 1)"))
			}
			okEnv = fmt.Sprintf("(let ((ka1 (to_int (* 10.0 %s)))) (or (and (round1_ok %s ka1) %s) (and (round1_ok %s (+ ka1 1)) %s)))", xa, xa, stage2("ka1"), xa, stage2("(+ ka1 1)"))
		}
		fmt.Fprintf(&sb, "(simplify %s)\n(simplify %s)\n(simplify %s)\n", okBase, okTemp, okEnv)
		idx = append(idx, i)
		obs = append(obs, [3]int{kb, kt, ke})
	}
	tmp, err := os.MkdirTemp("", "govc-scoreprobe-")
	if err != nil {
		return head + err.Error(), false
	}
	defer os.RemoveAll(tmp)
	fn := tmp + "/judge.smt2"
	os.WriteFile(fn, []byte(sb.String()), 0o644)
	ctx, cancel := context.WithTimeout(context.Background(), 300*time.Second)
	defer cancel()
	cmd := exec.CommandContext(ctx, "z3-new", "-smt2", fn)
	var out bytes.Buffer
	cmd.Stdout = &out
	cmd.Stderr = &out
	_ = cmd.Run()
	var verdicts []string
	for _, ln := range strings.Split(out.String(), "\n") {
		ln = strings.TrimSpace(ln)
		if ln != "" {
			verdicts = append(verdicts, ln)
		}
	}
	if len(verdicts) != 3*len(idx) {
		return head + fmt.Sprintf("probe did not run to completion (%d of %d verdicts: %s)\n", len(verdicts), 3*len(idx), tail(out.String(), 300)), false
	}
	names := []string{"base", "temporal", "environmental"}
	for n, i := range idx {
		for j := 0; j < 3; j++ {
			switch verdicts[3*n+j] {
			case "true":
			case "false":
				return head + fmt.Sprintf("SCORE-HIT vector %s: the %s score of the real code is %v (base %v, temporal %v, environmental %v); it is not a nearest tenth of the %s equation of the specification applied to the previous stage\n=> CONFIRMED\n",
					cases[i].vector, names[j], float64(obs[n][j])/10, float64(obs[n][0])/10, float64(obs[n][1])/10, float64(obs[n][2])/10, names[j]), true
			default:
				return head + "probe did not run to completion (the solver did not evaluate the specification to a truth value: " + verdicts[3*n+j] + ")\n", false
			}
		}
	}
	return head + fmt.Sprintf("no difference observed in this probe (%d vectors judged, %d known-finding instances skipped)\n", len(idx), len(cases)-len(idx)), false
}
