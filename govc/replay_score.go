package main

// Score probe, used as replay when the obligations of a score property could not be generated (a construct outside the
// subset inside Score, Severity, ...): vectors are decoded by the real code at every level and the scores and severities
// are compared with the specification prelude evaluated by the solver on the written codes (v3: every base vector of both
// versions plus seeded random temporal / environmental vectors; v2: base and temporal groups against the near1 relation).
// It never decides a check; it only turns a refutation into a concrete failing vector.

import (
	"bytes"
	"context"
	"fmt"
	"math"
	"math/rand"
	"os"
	"os/exec"
	"strconv"
	"strings"
	"sync"
	"time"
)

type scoreCase struct {
	vector string
	level  string // decoder used: base | temporal | environmental
	terms  []string
	tok    map[string]string
	ver    string
	parts  [2]string // base part, base+temporal part
}

// aspects: "value" (C01-C05: the scores are the specification's), "grid" (C06: tenth grid, range, severity = band of the
// same score), "neutral" (C13: Not Defined neutrality, temporal <= base), "views" (C14: lower-level views agree with
// lower-level decoders). A hit of one aspect never confirms a property of another aspect.
func scoreAspect(id string) string {
	switch id {
	case "C06":
		return "grid"
	case "C13":
		return "neutral"
	case "C14":
		return "views"
	}
	return "value"
}

func v3ScoreCases(st *SpecTables) []scoreCase {
	codes := func(name string) []string {
		var out []string
		for _, v := range st.V3.metric(name).Values {
			out = append(out, v.Code)
		}
		return out
	}
	var cases []scoreCase
	mk := func(ver string, tok map[string]string, level string) scoreCase {
		order := []string{"AV", "AC", "PR", "UI", "S", "C", "I", "A", "E", "RL", "RC", "CR", "IR", "AR", "MAV", "MAC", "MPR", "MUI", "MS", "MC", "MI", "MA"}
		v := "CVSS:" + ver
		for _, n := range order {
			if c, ok := tok[n]; ok {
				v += "/" + n + ":" + c
			}
		}
		p := func(n string) string {
			c, ok := tok[n]
			if !ok {
				c = "X"
			}
			return fmt.Sprintf("(parse_v3_%s \"%s\")", n, c)
		}
		base := strings.Join([]string{p("AV"), p("AC"), p("PR"), p("UI"), p("S"), p("C"), p("I"), p("A")}, " ")
		kb := "(v3_base_k " + base + ")"
		kt := fmt.Sprintf("(v3_outer_k %s %s %s %s)", kb, p("E"), p("RL"), p("RC"))
		eff := func(m, b string) string { return fmt.Sprintf("(eff_v3_%s %s %s)", b, p(m), p(b)) }
		ke := fmt.Sprintf("(v3_env_k (parse_v3_VER \"%s\") %s %s (eff_v3_PR %s %s) %s %s %s %s %s %s %s %s %s %s %s)", ver,
			eff("MAV", "AV"), eff("MAC", "AC"), p("MPR"), p("PR"), eff("MUI", "UI"), eff("MS", "S"), eff("MC", "C"), eff("MI", "I"), eff("MA", "A"),
			p("CR"), p("IR"), p("AR"), p("E"), p("RL"), p("RC"))
		bp, tp := "CVSS:"+ver, ""
		for _, n := range order[:8] {
			bp += "/" + n + ":" + tok[n]
		}
		tp = bp
		for _, n := range order[8:11] {
			if c, ok := tok[n]; ok {
				tp += "/" + n + ":" + c
			}
		}
		return scoreCase{vector: v, level: level, terms: []string{kb, kt, ke}, tok: tok, ver: ver, parts: [2]string{bp, tp}}
	}
	rot := 0
	for _, ver := range []string{"3.0", "3.1"} {
		for _, av := range codes("AV") {
			for _, ac := range codes("AC") {
				for _, pr := range codes("PR") {
					for _, ui := range codes("UI") {
						for _, s := range codes("S") {
							for _, c := range codes("C") {
								for _, i := range codes("I") {
									for _, a := range codes("A") {
										cases = append(cases, mk(ver, map[string]string{"AV": av, "AC": ac, "PR": pr, "UI": ui, "S": s, "C": c, "I": i, "A": a}, "environmental"))
										// the same base vector with four temporal combinations (evenly spaced, rotating through all of them; a base
										// score is shared by many base vectors, so the pairs (base score, E/RL/RC) are covered densely), no
										// environmental metric
										es, rls, rcs := codes("E"), codes("RL"), codes("RC")
										all := len(es) * len(rls) * len(rcs)
										for q := 0; q < 4; q++ {
											n := (rot + q*all/4) % all
											cases = append(cases, mk(ver, map[string]string{"AV": av, "AC": ac, "PR": pr, "UI": ui, "S": s, "C": c, "I": i, "A": a,
												"E": es[n%len(es)], "RL": rls[(n/len(es))%len(rls)], "RC": rcs[(n/(len(es)*len(rls)))%len(rcs)]}, "environmental"))
										}
										rot++
									}
								}
							}
						}
					}
				}
			}
		}
	}
	rng := rand.New(rand.NewSource(20261001))
	pick := func(n string) string { cs := codes(n); return cs[rng.Intn(len(cs))] }
	for k := 0; k < 3000; k++ {
		tok := map[string]string{}
		for _, n := range []string{"AV", "AC", "PR", "UI", "S", "C", "I", "A"} {
			tok[n] = pick(n)
		}
		opt := []string{"E", "RL", "RC"}
		if k%3 != 0 {
			opt = append(opt, "CR", "IR", "AR", "MAV", "MAC", "MPR", "MUI", "MS", "MC", "MI", "MA")
		}
		for _, n := range opt {
			if rng.Intn(4) != 0 {
				tok[n] = pick(n)
			}
		}
		cases = append(cases, mk([]string{"3.0", "3.1"}[k%2], tok, "environmental"))
	}
	return cases
}

var scoreProbeCache sync.Map

// scoreProbe: v3 (the v2 equations are relations with ties: v2ScoreProbe).
func scoreProbe(u *Universe, st *SpecTables, repo, aspect string) (string, bool) {
	key := "v3|" + aspect + "|" + repo
	if v, ok := scoreProbeCache.Load(key); ok {
		r := v.([2]interface{})
		return r[0].(string), r[1].(bool)
	}
	rep, hit := scoreProbeRun(u, st, repo, aspect)
	scoreProbeCache.Store(key, [2]interface{}{rep, hit})
	return rep, hit
}

func v3Band(k int) string {
	switch {
	case k <= 0:
		return "None"
	case k < 40:
		return "Low"
	case k < 70:
		return "Medium"
	case k < 90:
		return "High"
	}
	return "Critical"
}

func onGrid(x float64, lo, hi int) (int, bool) {
	k := math.Round(x * 10)
	if math.IsNaN(x) || math.IsInf(x, 0) {
		return 0, false
	}
	return int(k), x == k/10 && int(k) >= lo && int(k) <= hi
}

func scoreProbeRun(u *Universe, st *SpecTables, repo, aspect string) (string, bool) {
	head := "score probe on the real code, aspect '" + aspect + "' (v3: all 5,184 base vectors, each also with four of the 100 temporal combinations in rotation, and 3,000 seeded random temporal/environmental vectors decoded by the Environmental decoder"
	switch aspect {
	case "value":
		head += "; oracle: the specification prelude evaluated by z3 on the written codes; base, temporal and environmental score are compared):\n"
	case "grid":
		head += "; every score must be a multiple of 0.1 in 0..10 and not -0, every severity the rating band of the same score):\n"
	case "neutral":
		head += "; E/RL/RC all Not Defined => temporal = base; environmental metrics all Not Defined => environmental = temporal unless 3.1 and scope changed; temporal <= base):\n"
	case "views":
		head += "; base / temporal score, severity and encoding through the higher-level object against the lower-level decoders on the projected vector):\n"
	}
	cases := v3ScoreCases(st)
	tmp, err := os.MkdirTemp("", "govc-scoreprobe-")
	if err != nil {
		return head + err.Error(), false
	}
	defer os.RemoveAll(tmp)
	var exp []int
	if aspect == "value" {
		var sb strings.Builder
		sb.WriteString(u.Prelude)
		for _, c := range cases {
			for _, t := range c.terms {
				fmt.Fprintf(&sb, "(simplify %s)\n", t)
			}
		}
		fn := tmp + "/expected.smt2"
		os.WriteFile(fn, []byte(sb.String()), 0o644)
		ctx, cancel := context.WithTimeout(context.Background(), 300*time.Second)
		defer cancel()
		cmd := exec.CommandContext(ctx, "z3-new", "-smt2", fn)
		var out bytes.Buffer
		cmd.Stdout = &out
		cmd.Stderr = &out
		_ = cmd.Run()
		for _, ln := range strings.Split(out.String(), "\n") {
			ln = strings.TrimSpace(ln)
			if ln == "" {
				continue
			}
			ln = strings.ReplaceAll(strings.ReplaceAll(strings.ReplaceAll(ln, "(", ""), ")", ""), " ", "")
			n, err := strconv.Atoi(ln)
			if err != nil {
				return head + "probe did not run to completion (the solver did not evaluate the specification to a numeral: " + tail(out.String(), 300) + ")\n", false
			}
			exp = append(exp, n)
		}
		if len(exp) != 3*len(cases) {
			return head + fmt.Sprintf("probe did not run to completion (%d of %d expected values)\n", len(exp), 3*len(cases)), false
		}
	}
	var reqs []map[string]interface{}
	for _, c := range cases {
		if aspect == "views" {
			reqs = append(reqs, map[string]interface{}{"op": "views", "vector": c.vector, "args": []string{c.parts[0], c.parts[1]}})
		} else {
			reqs = append(reqs, map[string]interface{}{"op": "decode", "level": c.level, "vector": c.vector})
		}
	}
	ans, _, err := runHarness(repo, "v3/metric", reqs)
	if err != nil || len(ans) != len(cases) {
		return head + "probe did not run to completion (" + errString(err) + ")\n", false
	}
	names := []string{"base", "temporal", "environmental"}
	allX := func(c scoreCase, ns ...string) bool {
		for _, n := range ns {
			if v, ok := c.tok[n]; ok && v != "X" {
				return false
			}
		}
		return true
	}
	for i, c := range cases {
		a := ans[i]
		if a.Panic != "" || !a.Ok || a.Err != "" {
			if aspect == "value" || aspect == "views" {
				return head + fmt.Sprintf("SCORE-HIT vector %s: the real code does not decode / score a well-formed vector: panic=%q err=%q\n=> CONFIRMED\n", c.vector, a.Panic, a.Err), true
			}
			continue
		}
		got := []float64{a.Base, a.Temporal, a.Env}
		switch aspect {
		case "value":
			for j := 0; j < 3; j++ {
				want := float64(exp[3*i+j]) / 10
				if got[j] != want {
					return head + fmt.Sprintf("SCORE-HIT vector %s: %s score of the real code is %v, the specification gives %v\n=> CONFIRMED\n", c.vector, names[j], got[j], want), true
				}
			}
		case "grid":
			for j := 0; j < 3; j++ {
				k, ok := onGrid(got[j], 0, 100)
				if !ok || math.Signbit(got[j]) {
					return head + fmt.Sprintf("SCORE-HIT vector %s: %s score of the real code is %v: not a multiple of 0.1 in 0.0..10.0\n=> CONFIRMED\n", c.vector, names[j], got[j]), true
				}
				if len(a.Sev) == 3 && !strings.EqualFold(a.Sev[j], v3Band(k)) {
					return head + fmt.Sprintf("SCORE-HIT vector %s: %s severity of the real code is %s for its own score %v, the rating scale gives %s\n=> CONFIRMED\n", c.vector, names[j], a.Sev[j], got[j], v3Band(k)), true
				}
			}
		case "neutral":
			if got[1] > got[0] {
				return head + fmt.Sprintf("SCORE-HIT vector %s: temporal score %v exceeds the base score %v\n=> CONFIRMED\n", c.vector, got[1], got[0]), true
			}
			if allX(c, "E", "RL", "RC") && got[1] != got[0] {
				return head + fmt.Sprintf("SCORE-HIT vector %s: E, RL, RC are all Not Defined but the temporal score %v differs from the base score %v\n=> CONFIRMED\n", c.vector, got[1], got[0]), true
			}
			if allX(c, "CR", "IR", "AR", "MAV", "MAC", "MPR", "MUI", "MS", "MC", "MI", "MA") && !(c.ver == "3.1" && c.tok["S"] == "C") && got[2] != got[1] {
				return head + fmt.Sprintf("SCORE-HIT vector %s: all environmental metrics are Not Defined but the environmental score %v differs from the temporal score %v\n=> CONFIRMED\n", c.vector, got[2], got[1]), true
			}
		case "views":
			for k := 0; k+2 < len(a.Out); k += 3 {
				if a.Out[k+1] != a.Out[k+2] {
					return head + fmt.Sprintf("SCORE-HIT vector %s: %s is %q, the lower-level decoder on %s gives %q\n=> CONFIRMED\n", c.vector, a.Out[k], a.Out[k+1], c.parts[map[bool]int{true: 0, false: 1}[strings.HasPrefix(a.Out[k], "base")]], a.Out[k+2]), true
				}
			}
		}
	}
	return head + fmt.Sprintf("no difference observed in this probe (%d vectors)\n", len(cases)), false
}

// ---------------------------------------------------------------------------
// v2: the equations are relations (a nearest tenth; both neighbours on an exact half), stage by stage on the rounded
// result of the previous stage. The intermediate adjusted scores are not observable, so they are existentially chosen
// among the (at most two) nearest tenths. Instances recorded as known findings (C05, stage adjbase) are skipped, so a hit
// is never one of them.

type v2Case struct {
	vector  string
	tok     map[string]string
	hasT    bool
	hasE    bool
	instKey string
}

func v2ScoreCases(st *SpecTables) []v2Case {
	codes := func(name string) []string {
		var out []string
		for _, v := range st.V2.metric(name).Values {
			out = append(out, v.Code)
		}
		return out
	}
	var cases []v2Case
	mk := func(tok map[string]string, hasT, hasE bool) v2Case {
		v := ""
		for _, n := range []string{"AV", "AC", "Au", "C", "I", "A"} {
			v += "/" + n + ":" + tok[n]
		}
		v = v[1:]
		if hasT {
			v += "/E:" + tok["E"] + "/RL:" + tok["RL"] + "/RC:" + tok["RC"]
		}
		key := ""
		if hasE {
			v += "/CDP:" + tok["CDP"] + "/TD:" + tok["TD"] + "/CR:" + tok["CR"] + "/IR:" + tok["IR"] + "/AR:" + tok["AR"]
			key = fmt.Sprintf("m.AV=%s m.AC=%s m.Au=%s m.C=%s m.I=%s m.A=%s m.CR=%s m.IR=%s m.AR=%s", tok["AV"], tok["AC"], tok["Au"], tok["C"], tok["I"], tok["A"], tok["CR"], tok["IR"], tok["AR"])
		}
		return v2Case{vector: v, tok: tok, hasT: hasT, hasE: hasE, instKey: key}
	}
	rng := rand.New(rand.NewSource(20261002))
	pick := func(n string) string { cs := codes(n); return cs[rng.Intn(len(cs))] }
	for _, av := range codes("AV") {
		for _, ac := range codes("AC") {
			for _, au := range codes("Au") {
				for _, c := range codes("C") {
					for _, i := range codes("I") {
						for _, a := range codes("A") {
							b := map[string]string{"AV": av, "AC": ac, "Au": au, "C": c, "I": i, "A": a}
							cases = append(cases, mk(b, false, false))
							for _, sp := range [][]string{{"N", "H", "ND", "ND", "ND"}, {"ND", "ND", "ND", "ND", "ND"}, {"L", "M", "ND", "ND", "ND"}, {"ND", "ND", "M", "M", "M"}, {"H", "L", "H", "H", "H"}, {"MH", "H", "L", "L", "L"}, {"H", "N", "H", "M", "L"}, {"LM", "H", "ND", "M", "ND"}} {
								t := map[string]string{"CDP": sp[0], "TD": sp[1], "CR": sp[2], "IR": sp[3], "AR": sp[4], "E": "F", "RL": "OF", "RC": "C"}
								if sp[0] == "LM" {
									t["E"], t["RL"], t["RC"] = "ND", "ND", "ND"
								}
								for k, v := range b {
									t[k] = v
								}
								cases = append(cases, mk(t, len(cases)%2 == 0, true))
							}
							for r := 0; r < 5; r++ {
								t := map[string]string{}
								for k, v := range b {
									t[k] = v
								}
								for _, n := range []string{"E", "RL", "RC", "CDP", "TD", "CR", "IR", "AR"} {
									t[n] = pick(n)
								}
								cases = append(cases, mk(t, r%2 == 0 || r == 3, r >= 1))
							}
						}
					}
				}
			}
		}
	}
	return cases
}

func knownInstanceKeys() map[string]bool {
	out := map[string]bool{}
	known, _ := loadKnownFindings(verifRoot + "/known-findings.txt")
	for _, kf := range known {
		out[kf.Case] = true
	}
	return out
}

func v2ScoreProbe(u *Universe, st *SpecTables, repo, aspect string) (string, bool) {
	key := "v2|" + aspect + "|" + repo
	if v, ok := scoreProbeCache.Load(key); ok {
		r := v.([2]interface{})
		return r[0].(string), r[1].(bool)
	}
	rep, hit := v2ScoreProbeRun(u, st, repo, aspect)
	scoreProbeCache.Store(key, [2]interface{}{rep, hit})
	return rep, hit
}

func v2Band(k int) string {
	switch {
	case k <= 39:
		return "Low"
	case k <= 69:
		return "Medium"
	}
	return "High"
}

func v2ScoreProbeRun(u *Universe, st *SpecTables, repo, aspect string) (string, bool) {
	head := "score probe on the real code, aspect '" + aspect + "' (v2: all 729 base vectors, each also with 8 fixed and 5 seeded random temporal / environmental groups, decoded by the Environmental decoder"
	switch aspect {
	case "value":
		head += "; oracle: the specification prelude evaluated by z3: every stage is a nearest tenth of the equation applied to the rounded result of the previous stage; instances listed as known findings are skipped):\n"
	case "grid":
		head += "; every score a multiple of 0.1 in 0..10 (environmental level: a negative tenth down to -2.0 is the stated exception), severity the band of the same score where it is positive):\n"
	case "neutral":
		head += "; E/RL/RC all ND or absent => temporal = base; temporal <= base; TD:N => environmental = 0):\n"
	case "views":
		head += "; base / temporal score, severity and encoding through the higher-level object against the lower-level decoders on the projected vector):\n"
	}
	cases := v2ScoreCases(st)
	known := knownInstanceKeys()
	var reqs []map[string]interface{}
	for _, c := range cases {
		if aspect == "views" {
			bp := strings.Join(strings.Split(c.vector, "/")[:6], "/")
			tp := bp
			if c.hasT {
				tp = strings.Join(strings.Split(c.vector, "/")[:9], "/")
			}
			reqs = append(reqs, map[string]interface{}{"op": "views", "vector": c.vector, "args": []string{bp, tp}})
		} else {
			reqs = append(reqs, map[string]interface{}{"op": "decode", "vector": c.vector})
		}
	}
	ans, _, err := runHarness(repo, "v2/metric", reqs)
	if err != nil || len(ans) != len(cases) {
		return head + "probe did not run to completion (" + errString(err) + ")\n", false
	}
	grid := func(x float64) (int, bool) {
		k := math.Round(x * 10)
		return int(k), x == k/10 || (k == 0 && x == 0)
	}
	var sb strings.Builder
	sb.WriteString(u.Prelude)
	var idx []int
	var obs [][3]int
	names := []string{"base", "temporal", "environmental"}
	for i, c := range cases {
		a := ans[i]
		if a.Panic != "" || !a.Ok || a.Err != "" {
			if aspect == "value" || aspect == "views" {
				return head + fmt.Sprintf("SCORE-HIT vector %s: the real code does not decode / score a canonical vector: panic=%q err=%q\n=> CONFIRMED\n", c.vector, a.Panic, a.Err), true
			}
			continue
		}
		got := []float64{a.Base, a.Temporal, a.Env}
		switch aspect {
		case "views":
			for k := 0; k+2 < len(a.Out); k += 3 {
				if a.Out[k+1] != a.Out[k+2] {
					return head + fmt.Sprintf("SCORE-HIT vector %s: %s is %q, the lower-level decoder on the projected vector gives %q\n=> CONFIRMED\n", c.vector, a.Out[k], a.Out[k+1], a.Out[k+2]), true
				}
			}
			continue
		case "grid":
			for j := 0; j < 3; j++ {
				k, ok := grid(got[j])
				lo := 0
				if j == 2 && c.hasE {
					lo = -20
				}
				if !ok || k < lo || k > 100 {
					return head + fmt.Sprintf("SCORE-HIT vector %s: %s score of the real code is %v: not a multiple of 0.1 in the permitted range\n=> CONFIRMED\n", c.vector, names[j], got[j]), true
				}
				if len(a.Sev) == 3 && k > 0 && !strings.EqualFold(a.Sev[j], v2Band(k)) {
					return head + fmt.Sprintf("SCORE-HIT vector %s: %s severity of the real code is %s for its own score %v, the rating scale gives %s\n=> CONFIRMED\n", c.vector, names[j], a.Sev[j], got[j], v2Band(k)), true
				}
			}
			continue
		case "neutral":
			if got[1] > got[0] {
				return head + fmt.Sprintf("SCORE-HIT vector %s: temporal score %v exceeds the base score %v\n=> CONFIRMED\n", c.vector, got[1], got[0]), true
			}
			if (!c.hasT || (c.tok["E"] == "ND" && c.tok["RL"] == "ND" && c.tok["RC"] == "ND")) && got[1] != got[0] {
				return head + fmt.Sprintf("SCORE-HIT vector %s: E, RL, RC are Not Defined / absent but the temporal score %v differs from the base score %v\n=> CONFIRMED\n", c.vector, got[1], got[0]), true
			}
			if c.hasE && c.tok["TD"] == "N" && got[2] != 0 {
				return head + fmt.Sprintf("SCORE-HIT vector %s: Target Distribution is None but the environmental score is %v\n=> CONFIRMED\n", c.vector, got[2]), true
			}
			continue
		}
		if c.hasE && known[c.instKey] {
			continue
		}
		kb, ok1 := grid(a.Base)
		kt, ok2 := grid(a.Temporal)
		ke, ok3 := grid(a.Env)
		if !ok1 || !ok2 || !ok3 {
			return head + fmt.Sprintf("SCORE-HIT vector %s: a score of the real code is not a multiple of 0.1: base %v temporal %v environmental %v\n=> CONFIRMED\n", c.vector, a.Base, a.Temporal, a.Env), true
		}
		p := func(n string) string { return fmt.Sprintf("(parse_v2_%s \"%s\")", n, c.tok[n]) }
		base := strings.Join([]string{p("AV"), p("AC"), p("Au"), p("C"), p("I"), p("A")}, " ")
		okBase := fmt.Sprintf("(round1_ok (v2_base_x %s) %d)", base, kb)
		okTemp := fmt.Sprintf("(= %d %d)", kt, kb)
		trc := ""
		if c.hasT {
			trc = fmt.Sprintf("%s %s %s", p("E"), p("RL"), p("RC"))
			okTemp = fmt.Sprintf("(round1_ok (v2_temporal_x %d %s) %d)", kb, trc, kt)
		}
		okEnv := fmt.Sprintf("(= %d %d)", ke, kt)
		if c.hasE {
			xa := fmt.Sprintf("(v2_adjbase_x %s %s %s %s)", base, p("CR"), p("IR"), p("AR"))
			fin := func(k string) string {
				return fmt.Sprintf("(round1_ok (v2_env_x %s %s %s) %d)", k, p("CDP"), p("TD"), ke)
			}
			stage2 := func(ka string) string {
				if !c.hasT {
					return fin(ka)
				}
				xt := fmt.Sprintf("(v2_temporal_x %s %s)", ka, trc)
				return fmt.Sprintf("(let ((kt1 (to_int (* 10.0 %s)))) (or (and (round1_ok %s kt1) %s) (and (round1_ok %s (+ kt1 1)) %s)))", xt, xt, fin("kt1"), xt, fin("(+ kt1 1)"))
			}
			okEnv = fmt.Sprintf("(let ((ka1 (to_int (* 10.0 %s)))) (or (and (round1_ok %s ka1) %s) (and (round1_ok %s (+ ka1 1)) %s)))", xa, xa, stage2("ka1"), xa, stage2("(+ ka1 1)"))
		}
		fmt.Fprintf(&sb, "(simplify %s)\n(simplify %s)\n(simplify %s)\n", okBase, okTemp, okEnv)
		idx = append(idx, i)
		obs = append(obs, [3]int{kb, kt, ke})
	}
	if aspect != "value" {
		return head + fmt.Sprintf("no difference observed in this probe (%d vectors)\n", len(cases)), false
	}
	tmp, err := os.MkdirTemp("", "govc-scoreprobe-")
	if err != nil {
		return head + err.Error(), false
	}
	defer os.RemoveAll(tmp)
	fn := tmp + "/judge.smt2"
	os.WriteFile(fn, []byte(sb.String()), 0o644)
	ctx, cancel := context.WithTimeout(context.Background(), 300*time.Second)
	defer cancel()
	cmd := exec.CommandContext(ctx, "z3-new", "-smt2", fn)
	var out bytes.Buffer
	cmd.Stdout = &out
	cmd.Stderr = &out
	_ = cmd.Run()
	var verdicts []string
	for _, ln := range strings.Split(out.String(), "\n") {
		ln = strings.TrimSpace(ln)
		if ln != "" {
			verdicts = append(verdicts, ln)
		}
	}
	if len(verdicts) != 3*len(idx) {
		return head + fmt.Sprintf("probe did not run to completion (%d of %d verdicts: %s)\n", len(verdicts), 3*len(idx), tail(out.String(), 300)), false
	}
	for n, i := range idx {
		for j := 0; j < 3; j++ {
			switch verdicts[3*n+j] {
			case "true":
			case "false":
				return head + fmt.Sprintf("SCORE-HIT vector %s: the %s score of the real code is %v (base %v, temporal %v, environmental %v); it is not a nearest tenth of the %s equation of the specification applied to the previous stage\n=> CONFIRMED\n",
					cases[i].vector, names[j], float64(obs[n][j])/10, float64(obs[n][0])/10, float64(obs[n][1])/10, float64(obs[n][2])/10, names[j]), true
			default:
				return head + "probe did not run to completion (the solver did not evaluate the specification to a truth value: " + verdicts[3*n+j] + ")\n", false
			}
		}
	}
	return head + fmt.Sprintf("no difference observed in this probe (%d vectors judged, %d known-finding instances skipped)\n", len(idx), len(cases)-len(idx)), false
}
