package main

import (
	"flag"
	"fmt"
	"os"
	"path/filepath"
	"runtime"
	"sort"
	"strings"
	"time"
)

var verifRoot = "/verif"

func setup(repo string) (*Universe, *SpecTables, error) {
	u, err := loadUniverse(repo)
	if err != nil {
		return nil, nil, err
	}
	if err := u.loadContracts(); err != nil {
		return nil, nil, err
	}
	u.bindContracts()
	st, err := u.buildPrelude(filepath.Join(verifRoot, "spec"), "")
	if err != nil {
		return nil, nil, err
	}
	// function summaries extend the prelude
	sums := u.buildSummaries()
	u.BasePrelude += "; ---- function summaries (generated from the symbolic execution of the real bodies) ----\n" + sums
	u.Prelude += sums
	u.SpecDefs = parseSpecDefs(u.BasePrelude)
	return u, st, nil
}

func main() {
	if len(os.Args) < 2 {
		fmt.Fprintln(os.Stderr, "usage: verif <check|dev|list|replay|selftest> ...")
		os.Exit(2)
	}
	if exe, err := os.Executable(); err == nil {
		if d := filepath.Dir(filepath.Dir(exe)); fileExists(filepath.Join(d, "spec", "tables.json")) {
			verifRoot = d
		}
	}
	switch os.Args[1] {
	case "dev":
		devCmd(os.Args[2:])
	case "check":
		os.Exit(checkCmd(os.Args[2:]))
	case "replay":
		os.Exit(replayCmd(os.Args[2:]))
	case "search": // verif search <repo> <pkgdir>: run the decoder witness search (debugging aid)
		u, st, err := setup(os.Args[2])
		_ = u
		if err != nil {
			fmt.Println(err)
			os.Exit(2)
		}
		rep, hit := decodeWitnessSearch(st, os.Args[2], os.Args[3])
		fmt.Println(rep, hit)
	case "probes": // verif probes <repo>: run every replay probe; on a tree where the properties hold none may report a hit
		u, st, err := setup(os.Args[2])
		if err != nil {
			fmt.Println(err)
			os.Exit(2)
		}
		bad := 0
		run := func(name string, f func() (string, bool)) {
			rep, hit := f()
			fmt.Printf("== %s: hit=%v\n%s\n", name, hit, tail(rep, 1200))
			if hit {
				bad++
			}
		}
		repo := os.Args[2]
		run("witness search v3", func() (string, bool) { return decodeWitnessSearch(st, repo, "v3/metric") })
		run("witness search v2", func() (string, bool) { return decodeWitnessSearch(st, repo, "v2/metric") })
		run("purity v3", func() (string, bool) { return purityProbe(repo, "v3/metric") })
		run("purity v2", func() (string, bool) { return purityProbe(repo, "v2/metric") })
		run("purity report", func() (string, bool) { return purityProbe(repo, "v3/report") })
		run("template", func() (string, bool) { return templateProbe(repo) })
		run("report", func() (string, bool) { return reportProbe(st, repo) })
		run("score v3", func() (string, bool) { return scoreProbe(u, st, repo, "value") })
		run("score v2", func() (string, bool) { return v2ScoreProbe(u, st, repo, "value") })
		for _, asp := range []string{"grid", "neutral", "views"} {
			asp := asp
			run("score v3 "+asp, func() (string, bool) { return scoreProbe(u, st, repo, asp) })
			run("score v2 "+asp, func() (string, bool) { return v2ScoreProbe(u, st, repo, asp) })
		}
		run("robust v3", func() (string, bool) { return robustProbe(repo, "v3/metric") })
		run("robust v2", func() (string, bool) { return robustProbe(repo, "v2/metric") })
		run("names", func() (string, bool) { return namesProbe(u, repo) })
		run("tables", func() (string, bool) { return tablesProbe(u, st, repo) })
		run("sentinels", func() (string, bool) { return sentinelProbe(repo) })
		run("race", func() (string, bool) { return raceReplay(repo) })
		fmt.Printf("probes with a hit: %d\n", bad)
		if bad > 0 {
			os.Exit(1)
		}
	default:
		fmt.Fprintln(os.Stderr, "unknown command", os.Args[1])
		os.Exit(2)
	}
}

func fileExists(p string) bool { _, err := os.Stat(p); return err == nil }

func devCmd(args []string) {
	fs := flag.NewFlagSet("dev", flag.ExitOnError)
	repo := fs.String("repo", "/repo", "repository")
	fam := fs.String("family", "", "run only this family")
	nofam := fs.Bool("nofam", false, "skip families")
	show := fs.Bool("show", false, "print obligations")
	max := fs.Int("max", 0, "max instances")
	tmo := fs.Int("timeout", 20000, "solver timeout (ms)")
	fs.Parse(args)
	start := time.Now()
	u, st, err := setup(*repo)
	if err != nil {
		fmt.Println("setup:", err)
		os.Exit(2)
	}
	fmt.Printf("loaded in %v; %d funcs, %d contracts\n", time.Since(start), len(u.Funcs), len(u.Contracts))
	tmp, _ := os.MkdirTemp("", "govc-")
	defer os.RemoveAll(tmp)
	d := &Discharger{Prelude: u.Prelude, Dir: tmp, TimeoutMs: *tmo, Primary: []string{"z3-new", "z3", "cvc5"}, Stats: newStats(), Workers: runtime.NumCPU(), KeepFailed: "/tmp/govc-failed"}
	for _, key := range fs.Args() {
		fi := u.Funcs[key]
		if fi == nil || fi.Contract == nil {
			fmt.Println("no function/contract", key)
			continue
		}
		var groups [][]*Oblig
		if *fam == "" {
			r := u.verifySymbolic(fi, nil)
			fmt.Printf("%s: symbolic: %d paths, %d obligations, untranslatable: %v\n", key, r.Paths, len(r.Obligs), r.Untrans)
			groups = append(groups, r.Obligs)
		}
		if !*nofam {
			for _, sc := range fi.Contract.Scenarios {
				if *fam != "" && sc.Name != *fam {
					continue
				}
				r := u.verifyScenario(fi, sc)
				fmt.Printf("%s: scenario %s: %d paths, %d obligations, untranslatable: %v\n", key, sc.Name, r.Paths, len(r.Obligs), r.Untrans)
				groups = append(groups, r.Obligs)
			}
			for _, f := range fi.Contract.Families {
				if *fam != "" && f.Name != *fam {
					continue
				}
				groups = append(groups, u.familyExhaustive(fi, f))
				tm, err := u.familyTemplate(fi, f, st)
				if err != nil {
					fmt.Println("family", f.Name, "error:", err)
					continue
				}
				u.Oracle.collectTemplate(tm)
				obs := tm.instances()
				n := len(obs)
				fmt.Printf("   template %s: %d parts, body %d bytes, missing=%v untrans=%v\n", tm.Name, len(tm.Parts), len(tm.Body.S), tm.Missing, tm.Untrans)
				if *max > 0 && len(obs) > *max {
					obs = obs[:*max]
				}
				fmt.Printf("%s: family %s: %d instances, %d obligations, err=%v\n", key, f.Name, n, len(obs), err)
				groups = append(groups, obs)
			}
		}
		for _, p := range u.Problems {
			fmt.Println("PROBLEM:", p)
		}
		t0 := time.Now()
		for _, g := range groups {
			for _, o := range g {
				u.Oracle.collect(o.Goal.S)
				for _, a := range o.Assumes {
					u.Oracle.collect(a.S)
				}
			}
		}
		otext, err := u.Oracle.build(u.BasePrelude, tmp)
		if err != nil {
			fmt.Println("oracle:", err)
		}
		d.Prelude = u.BasePrelude + otext
		fmt.Printf("oracle: pow13 %d pow15 %d fmt %d entries (%v)\n", len(u.Oracle.PowTab[13]), len(u.Oracle.PowTab[15]), len(u.Oracle.FmtTab), time.Since(t0))
		groups = append(groups, u.Oracle.Sanity)
		d.discharge(groups)
		fmt.Printf("discharged in %v\n", time.Since(t0))
		cnt := map[string]int{}
		for _, g := range groups {
			for _, o := range g {
				cnt[o.Kind+":"+o.Result]++
				if !o.ok() || *show || !strings.HasPrefix(o.Solver, "z3-new") {
					fmt.Printf("  %s [%s] %s => %s (%s) %s\n", o.Name, o.Instance, o.Where, o.Result, o.Solver, o.Note)
					if *show {
						fmt.Println("     assumes:", o.Assumes)
						fmt.Println("     goal:", o.Goal.S)
					}
				}
			}
		}
		ks := sortedKeys(cnt)
		sort.Strings(ks)
		for _, k := range ks {
			fmt.Printf("  %-30s %d\n", k, cnt[k])
		}
	}
	fmt.Println(strings.Repeat("-", 20), d.Stats.BySolver, d.Stats.MillisBy)
}
