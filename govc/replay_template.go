package main

// C19 probe, used as replay for refuted export obligations: a battery of templates (valid, unparsable, failing at
// execution after partial output, HTML-significant text), readers (nil, failing, normal) and reports (nil, three levels)
// is run through the real ExportWith / ExportWithString and compared with text/template executed directly (the
// property's own oracle). Used only to confirm refutations.

import (
	"strings"
	"sync"
)

const templateProbeSrc = `package report

import (
	"bytes"
	"errors"
	"fmt"
	"io"
	"strings"
	"testing"
	"text/template"

	"github.com/goark/go-cvss/cvsserr"
	"github.com/goark/go-cvss/v3/metric"
)

type vrBadReader struct{}

func (vrBadReader) Read(p []byte) (int, error) { return 0, errors.New("read failure") }

type vrExporter interface {
	ExportWith(r io.Reader) (io.Reader, error)
	ExportWithString(s string) (io.Reader, error)
}

func vrDirect(text string, data interface{}) (string, bool) {
	t, err := template.New("x").Parse(text)
	if err != nil {
		return "", false
	}
	var b bytes.Buffer
	if err := t.Execute(&b, data); err != nil {
		return "", false
	}
	return b.String(), true
}

func TestVerifTemplate(t *testing.T) {
	em, err := metric.NewEnvironmental().Decode("CVSS:3.1/AV:N/AC:L/PR:L/UI:N/S:C/C:H/I:L/A:N/E:F/RL:W/RC:R/CR:H/MPR:H/MS:U")
	if err != nil {
		t.Fatal(err)
	}
	reps := []struct {
		name string
		rep  vrExporter
		data interface{}
	}{}
	rb, rt, re := NewBase(em.BaseMetrics()), NewTemporal(em.TemporalMetrics()), NewEnvironmental(em)
	reps = append(reps, struct {
		name string
		rep  vrExporter
		data interface{}
	}{"base", rb, rb}, struct {
		name string
		rep  vrExporter
		data interface{}
	}{"temporal", rt, rt}, struct {
		name string
		rep  vrExporter
		data interface{}
	}{"environmental", re, re})
	texts := []string{
		"{{.Vector}} {{.BaseScore}} {{.SeverityValue}}",
		"| {{ .AVName }} | {{ .AVValue }} |\n",
		"<a href=\"{{.Vector}}\">{{.BaseScore}}</a> <!-- c --> <script>var v = {{.Vector}};</script> x<y & z",
		"plain text, no actions",
		"",
		"{{ .NoSuchField }}",
		"before {{ .NoSuchField }} after",
		"{{.Vector}} {{ template \"missing\" . }}",
		"{{ index .Version 100 }}",
		"{{ .Vector ",
		"{{ if }}",
		"{{ range .Vector }}x{{ end }}",
	}
	for _, r := range reps {
		for _, tx := range texts {
			want, ok := vrDirect(tx, r.data)
			for _, via := range []string{"string", "reader"} {
				var out io.Reader
				var err error
				if via == "string" {
					out, err = r.rep.ExportWithString(tx)
				} else {
					out, err = r.rep.ExportWith(strings.NewReader(tx))
				}
				if ok {
					if err != nil || out == nil {
						fmt.Printf("TEMPLATE-HIT %s report via %s, template %q: text/template succeeds but export returned reader=%v err=%v\n", r.name, via, tx, out != nil, err)
						return
					}
					b, _ := io.ReadAll(out)
					if string(b) != want {
						fmt.Printf("TEMPLATE-HIT %s report via %s, template %q: export produced %q, text/template yields %q\n", r.name, via, tx, b, want)
						return
					}
				} else {
					if out != nil && !(fmt.Sprintf("%v", out) == "<nil>") {
						fmt.Printf("TEMPLATE-HIT %s report via %s, template %q: failing template but a reader (partial output) was returned\n", r.name, via, tx)
						return
					}
					if !errors.Is(err, cvsserr.ErrInvalidTemplate) {
						fmt.Printf("TEMPLATE-HIT %s report via %s, template %q: failing template, error %v does not match ErrInvalidTemplate\n", r.name, via, tx, err)
						return
					}
				}
			}
		}
		if out, err := r.rep.ExportWith(nil); out != nil || !errors.Is(err, cvsserr.ErrInvalidTemplate) {
			fmt.Printf("TEMPLATE-HIT %s report: nil reader gives reader=%v err=%v\n", r.name, out != nil, err)
			return
		}
		if out, err := r.rep.ExportWith(vrBadReader{}); out != nil || !errors.Is(err, cvsserr.ErrInvalidTemplate) {
			fmt.Printf("TEMPLATE-HIT %s report: failing reader gives reader=%v err=%v\n", r.name, out != nil, err)
			return
		}
	}
	if out, err := (*BaseReport)(nil).ExportWithString("x"); out != nil || !errors.Is(err, cvsserr.ErrNullPointer) {
		fmt.Printf("TEMPLATE-HIT nil base report: reader=%v err=%v\n", out != nil, err)
		return
	}
	if out, err := (*TemporalReport)(nil).ExportWith(strings.NewReader("x")); out != nil || !errors.Is(err, cvsserr.ErrNullPointer) {
		fmt.Printf("TEMPLATE-HIT nil temporal report: reader=%v err=%v\n", out != nil, err)
		return
	}
	if out, err := (*EnvironmentalReport)(nil).ExportWithString("{{"); out != nil || !errors.Is(err, cvsserr.ErrNullPointer) {
		fmt.Printf("TEMPLATE-HIT nil environmental report: reader=%v err=%v\n", out != nil, err)
		return
	}
	// readers stay valid: export, keep the reader, export other reports, then read the first one
	{
		tx := "{{.Vector}} {{.BaseScore}} {{.SeverityValue}} {{.AVValue}}"
		want1, _ := vrDirect(tx, rb)
		first, err := rb.ExportWithString(tx)
		if err == nil && first != nil {
			for i := 0; i < 4; i++ {
				if o, e := re.ExportWithString("{{.SeverityValue}} {{.BaseScore}} {{.Vector}} {{.Vector}}"); e == nil && o != nil {
					io.ReadAll(o)
				}
				rt.ExportWith(strings.NewReader("{{.Vector}} other text"))
				re.ExportWithString("{{ .NoSuchField }}")
			}
			b, _ := io.ReadAll(first)
			if string(b) != want1 {
				fmt.Printf("TEMPLATE-HIT base report, template %q: the reader returned by the export was read after later exports and yields %q, text/template yields %q (the returned reader does not own its content)\n", tx, b, want1)
				return
			}
		}
	}
	fmt.Println("TEMPLATE-NONE all exports agree with text/template")
}
`

var templateProbeCache sync.Map

func templateProbe(repo string) (string, bool) {
	if v, ok := templateProbeCache.Load(repo); ok {
		r := v.([2]interface{})
		return r[0].(string), r[1].(bool)
	}
	out, err := runOverlayTest(repo, "v3/report", templateProbeSrc, "TestVerifTemplate")
	hit := strings.Contains(out, "TEMPLATE-HIT")
	rep := "template export probe on the real code (12 templates x 3 report levels x string/reader, nil and failing readers, nil reports; oracle: text/template executed directly):\n"
	switch {
	case hit:
		i := strings.Index(out, "TEMPLATE-HIT")
		j := strings.Index(out[i:], "\n")
		rep += out[i:i+j] + "\n=> CONFIRMED\n"
	case strings.Contains(out, "TEMPLATE-NONE"):
		rep += "no difference observed in this probe\n"
	default:
		rep += "probe did not run to completion (" + errString(err) + "): " + tail(out, 800) + "\n"
	}
	templateProbeCache.Store(repo, [2]interface{}{rep, hit})
	return rep, hit
}
