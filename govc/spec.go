package main

// Evaluation of contract expressions to SMT terms.

import (
	"fmt"
	"go/token"
	"go/types"
	"math/big"
	"strings"
)

type SV struct {
	T     Term
	GoT   types.Type
	Slice *SliceVal
	IsNil bool // untyped nil literal
	IsLit bool // numeric literal (coercible)
}

type SpecEnv struct {
	C     *Ctx
	P     *Path
	Old   map[string]Term // heap snapshot for old(); reads of absent keys give the initial heap symbol
	Vars  map[string]SV
	Alias string
	inOld bool
	Err   error
}

func (e *SpecEnv) fail(format string, args ...interface{}) SV {
	if e.Err == nil {
		e.Err = fmt.Errorf(format, args...)
	}
	return SV{T: Term{S: "false", Sort: SBool}}
}

func (e *SpecEnv) readHeap(key, valSort string, ref Term) Term {
	if e.inOld {
		h, ok := e.Old[key]
		if !ok {
			h = e.C.initialHeap(key, valSort)
		}
		return e.P.norm(tSelect(h, ref, valSort))
	}
	return e.P.readField(key, valSort, ref)
}

func (e *SpecEnv) heapArr(key string) Term {
	if e.inOld {
		if h, ok := e.Old[key]; ok {
			return h
		}
		return e.C.initialHeap(key, "")
	}
	return e.P.heapGet(key, "")
}

func (u *Universe) resolveType(alias, texpr string) types.Type {
	key := alias + "|" + texpr
	u.mu.Lock()
	if u.typeCache == nil {
		u.typeCache = map[string]types.Type{}
	}
	if t, ok := u.typeCache[key]; ok {
		u.mu.Unlock()
		return t
	}
	u.mu.Unlock()
	t := u.resolveType0(alias, texpr)
	u.mu.Lock()
	u.typeCache[key] = t
	u.mu.Unlock()
	return t
}

func (u *Universe) resolveType0(alias, texpr string) types.Type {
	switch texpr {
	case "int":
		return types.Typ[types.Int]
	case "string":
		return types.Typ[types.String]
	case "bool":
		return types.Typ[types.Bool]
	case "float64":
		return types.Typ[types.Float64]
	case "error":
		return types.Universe.Lookup("error").Type()
	}
	p := u.Pkgs[alias]
	if p == nil {
		return nil
	}
	tv, err := types.Eval(u.Fset, p.Types, token.NoPos, texpr)
	if err != nil {
		// cross-package: alias-qualified (e.g. metric.Base inside report contracts)
		if i := strings.Index(texpr, "."); i >= 0 {
			ptr := strings.HasPrefix(texpr, "*")
			q := strings.TrimPrefix(texpr[:i], "*")
			name := texpr[i+1:]
			for _, imp := range p.Types.Imports() {
				if imp.Name() == q {
					if o := imp.Scope().Lookup(name); o != nil {
						if ptr {
							return types.NewPointer(o.Type())
						}
						return o.Type()
					}
				}
			}
		}
		return nil
	}
	return tv.Type
}

func specSortOfTypeName(name string) string {
	switch name {
	case "int":
		return SInt
	case "string":
		return SStr
	case "bool":
		return SBool
	case "real":
		return SReal
	case "float64":
		return SF64
	case "error":
		return SErr
	case "tag":
		return STag
	case "reader":
		return SReader
	}
	return ""
}

func (e *SpecEnv) evalBool(n *Node) Term {
	v := e.eval(n)
	if v.T.Sort != SBool && e.Err == nil {
		e.fail("expression %s is not boolean (sort %s)", n, v.T.Sort)
	}
	return v.T
}

func coerceLit(a, b SV) (SV, SV) {
	conv := func(x SV, to string) SV {
		if !x.IsLit {
			return x
		}
		switch {
		case to == SF64 && (x.T.Sort == SReal || x.T.Sort == SInt):
			s := x.T.S
			if x.T.Sort == SInt {
				if n, ok := x.T.C.(int64); ok {
					return SV{T: mkF64Rat(new(big.Rat).SetInt64(n))}
				}
			}
			return SV{T: Term{S: "((_ to_fp 11 53) RNE " + s + ")", Sort: SF64}}
		case to == SReal && x.T.Sort == SInt:
			if n, ok := x.T.C.(int64); ok {
				return SV{T: mkRealRat(new(big.Rat).SetInt64(n))}
			}
		}
		return x
	}
	if a.T.Sort != b.T.Sort {
		a = conv(a, b.T.Sort)
		b = conv(b, a.T.Sort)
	}
	return a, b
}

func (e *SpecEnv) eval(n *Node) SV {
	c := e.C
	switch n.Op {
	case "int":
		var v int64
		fmt.Sscanf(n.Name, "%d", &v)
		return SV{T: mkInt(v), IsLit: true}
	case "float":
		r, ok := new(big.Rat).SetString(n.Name)
		if !ok {
			return e.fail("bad float literal %s", n.Name)
		}
		return SV{T: mkRealRat(r), IsLit: true}
	case "str":
		return SV{T: mkStr(n.Name), GoT: types.Typ[types.String]}
	case "bool":
		return SV{T: mkBool(n.Name == "true")}
	case "nil":
		return SV{T: mkInt(0), IsNil: true}
	case "ident":
		if v, ok := e.Vars[n.Name]; ok {
			v.T = e.P.norm(v.T)
			return v
		}
		if k, ok := c.U.lookupConst(e.Alias, n.Name); ok {
			if t, ok := c.constTerm(k.Val(), k.Type()); ok {
				return SV{T: t, GoT: k.Type()}
			}
		}
		for v, bit := range c.U.Sentinel {
			if v.Name() == n.Name {
				return SV{T: errSentinel(bit)}
			}
		}
		if sig, ok := c.U.Specs[n.Name]; ok && len(sig.Params) == 0 {
			return SV{T: Term{S: n.Name, Sort: sig.Result}}
		}
		if strings.HasPrefix(n.Name, "Tag_") {
			return SV{T: Term{S: n.Name, Sort: STag, C: "tag:" + n.Name[4:]}}
		}
		if strings.Contains(n.Name, "_") { // alias-qualified constant: v3m_AttackVectorNetwork
			i := strings.Index(n.Name, "_")
			if k, ok := c.U.lookupConst(n.Name[:i], n.Name[i+1:]); ok {
				if t, ok := c.constTerm(k.Val(), k.Type()); ok {
					return SV{T: t, GoT: k.Type()}
				}
			}
		}
		return e.fail("unknown identifier %s", n.Name)
	case "old":
		saved := e.inOld
		e.inOld = true
		v := e.eval(n.Args[0])
		e.inOld = saved
		return v
	case "field":
		x := e.eval(n.Args[0])
		if x.GoT == nil {
			return e.fail("field %s of untyped expression %s", n.Name, n.Args[0])
		}
		obj, idx, _ := types.LookupFieldOrMethod(x.GoT, true, nil, n.Name)
		if obj == nil {
			// unexported field of another package: search by name
			obj, idx = lookupFieldAnyPkg(x.GoT, n.Name)
		}
		f, ok := obj.(*types.Var)
		if !ok {
			return e.fail("no field %s in %s", n.Name, x.GoT)
		}
		_ = f
		cur := x.T
		t := x.GoT
		for _, i := range idx {
			var st *types.Struct
			var named *types.Named
			if pt, ok := t.Underlying().(*types.Pointer); ok {
				st, _ = pt.Elem().Underlying().(*types.Struct)
				named, _ = pt.Elem().(*types.Named)
			}
			if st == nil || named == nil {
				return e.fail("field path through non-pointer in %s", n)
			}
			fld := st.Field(i)
			srt := c.U.sortOfType(fld.Type())
			if srt == SOpaque {
				return e.fail("field %s has unmodelled type", fld.Name())
			}
			cur = e.readHeap(fieldKey(named, fld), srt, cur)
			t = fld.Type()
		}
		return SV{T: cur, GoT: t}
	case "index":
		x := e.eval(n.Args[0])
		i := e.eval(n.Args[1])
		if x.Slice != nil {
			return SV{T: x.Slice.at(c, i.T), GoT: types.Typ[types.String]}
		}
		if x.GoT != nil {
			if mt, ok := x.GoT.Underlying().(*types.Map); ok && isStringBoolMap(mt) {
				m := e.heapArr(mapSBKey)
				return SV{T: e.P.norm(tSelect(tSelect(m, x.T, SArrSB), i.T, SBool))}
			}
		}
		if strings.HasPrefix(x.T.Sort, "(Array ") {
			parts := splitTop(x.T.Sort[1 : len(x.T.Sort)-1])
			return SV{T: e.P.norm(tSelect(x.T, i.T, canonSort(parts[2])))}
		}
		return e.fail("cannot index %s", n.Args[0])
	case "un":
		x := e.eval(n.Args[0])
		switch n.Name {
		case "!":
			return SV{T: tNot(x.T)}
		case "-":
			switch x.T.Sort {
			case SInt:
				r := tIntBin("-", mkInt(0), x.T)
				return SV{T: r, IsLit: x.IsLit}
			case SReal:
				return SV{T: app(SReal, "-", x.T), IsLit: x.IsLit}
			case SF64:
				return SV{T: app(SF64, "fp.neg", x.T)}
			}
		}
		return e.fail("bad unary %s", n)
	case "forall", "exists":
		saved := map[string]SV{}
		var binders []string
		for _, bv := range n.Vars {
			if old, ok := e.Vars[bv.Name]; ok {
				saved[bv.Name] = old
			}
			srt := specSortOfTypeName(bv.Type)
			if srt == "" {
				return e.fail("bad bound variable type %s", bv.Type)
			}
			name := "q_" + bv.Name
			e.Vars[bv.Name] = SV{T: Term{S: name, Sort: srt}, GoT: c.U.resolveType(e.Alias, bv.Type)}
			binders = append(binders, "("+name+" "+smtSort(srt)+")")
		}
		body := e.evalBool(n.Args[0])
		for _, bv := range n.Vars {
			delete(e.Vars, bv.Name)
			if old, ok := saved[bv.Name]; ok {
				e.Vars[bv.Name] = old
			}
		}
		return SV{T: Term{S: "(" + n.Op + " (" + strings.Join(binders, " ") + ") " + body.S + ")", Sort: SBool}}
	case "bin":
		return e.evalBin(n)
	case "call":
		return e.evalCall(n)
	}
	return e.fail("cannot evaluate %s", n)
}

func lookupFieldAnyPkg(t types.Type, name string) (types.Object, []int) {
	// breadth-first search through embedded fields, ignoring package of unexported names
	type item struct {
		t   types.Type
		idx []int
	}
	queue := []item{{t, nil}}
	for depth := 0; depth < 4 && len(queue) > 0; depth++ {
		var next []item
		for _, it := range queue {
			tt := it.t
			if p, ok := tt.Underlying().(*types.Pointer); ok {
				tt = p.Elem()
			}
			st, ok := tt.Underlying().(*types.Struct)
			if !ok {
				continue
			}
			for i := 0; i < st.NumFields(); i++ {
				f := st.Field(i)
				if f.Name() == name {
					return f, append(append([]int(nil), it.idx...), i)
				}
			}
			for i := 0; i < st.NumFields(); i++ {
				f := st.Field(i)
				if f.Embedded() {
					next = append(next, item{f.Type(), append(append([]int(nil), it.idx...), i)})
				}
			}
		}
		queue = next
	}
	return nil, nil
}

func (e *SpecEnv) evalBin(n *Node) SV {
	op := n.Name
	switch op {
	case "&&":
		return SV{T: tAnd(e.evalBool(n.Args[0]), e.evalBool(n.Args[1]))}
	case "||":
		return SV{T: tOr(e.evalBool(n.Args[0]), e.evalBool(n.Args[1]))}
	case "==>":
		a := e.evalBool(n.Args[0])
		if cb, ok := a.C.(bool); ok && !cb {
			return SV{T: tTrue}
		}
		return SV{T: tImplies(a, e.evalBool(n.Args[1]))}
	case "<==>":
		return SV{T: tEq(e.evalBool(n.Args[0]), e.evalBool(n.Args[1]))}
	}
	a := e.eval(n.Args[0])
	b := e.eval(n.Args[1])
	if a.IsNil && !b.IsNil {
		a = SV{T: nilOfSort(b.T.Sort)}
	}
	if b.IsNil && !a.IsNil {
		b = SV{T: nilOfSort(a.T.Sort)}
	}
	a, b = coerceLit(a, b)
	if a.T.Sort != b.T.Sort {
		return e.fail("sort mismatch in %s: %s vs %s", n, a.T.Sort, b.T.Sort)
	}
	srt := a.T.Sort
	lit := a.IsLit && b.IsLit
	switch op {
	case "===":
		return SV{T: e.P.norm(tEq(a.T, b.T))}
	case "!==":
		return SV{T: tNot(e.P.norm(tEq(a.T, b.T)))}
	case "==":
		if srt == SF64 {
			return SV{T: app(SBool, "fp.eq", a.T, b.T)}
		}
		return SV{T: e.P.norm(tEq(a.T, b.T))}
	case "!=":
		if srt == SF64 {
			return SV{T: tNot(app(SBool, "fp.eq", a.T, b.T))}
		}
		return SV{T: tNot(e.P.norm(tEq(a.T, b.T)))}
	case "<", "<=", ">", ">=":
		switch srt {
		case SInt:
			return SV{T: tIntCmp(op, a.T, b.T)}
		case SReal:
			return SV{T: app(SBool, op, a.T, b.T)}
		case SF64:
			return SV{T: app(SBool, map[string]string{"<": "fp.lt", "<=": "fp.leq", ">": "fp.gt", ">=": "fp.geq"}[op], a.T, b.T)}
		}
	case "+", "-", "*", "/":
		switch srt {
		case SInt:
			if op == "/" {
				return SV{T: app(SInt, "div", a.T, b.T)}
			}
			return SV{T: tIntBin(op, a.T, b.T), IsLit: lit}
		case SReal:
			return SV{T: app(SReal, op, a.T, b.T), IsLit: lit}
		case SF64:
			return SV{T: fpBin(map[string]string{"+": "fp.add", "-": "fp.sub", "*": "fp.mul", "/": "fp.div"}[op], a.T, b.T)}
		case SStr:
			if op == "+" {
				return SV{T: tConcat(a.T, b.T), GoT: types.Typ[types.String]}
			}
		}
	}
	return e.fail("bad operator %s on sort %s in %s", op, srt, n)
}

func nilOfSort(s string) Term {
	if s == SErr {
		return errNil
	}
	if s == SReader {
		return zeroTerm(SReader)
	}
	return mkInt(0)
}

func (e *SpecEnv) evalCall(n *Node) SV {
	if n.Name == "atreturn" { // atreturn(g, e): e in the heap as it was when the call named by call-site ghost g returned
		if len(n.Args) != 2 || n.Args[0].Op != "ident" {
			return e.fail("atreturn(ghost, expr)")
		}
		snap, ok := e.P.GhostHeap[n.Args[0].Name]
		if !ok {
			return e.fail("atreturn: the call of ghost %s was not made on this path", n.Args[0].Name)
		}
		savedOld, savedIn := e.Old, e.inOld
		e.Old, e.inOld = snap, true
		v := e.eval(n.Args[1])
		e.Old, e.inOld = savedOld, savedIn
		return v
	}
	c := e.C
	// predicates (macros)
	if pr, ok := c.U.Preds[n.Name]; ok {
		if len(pr.Params) != len(n.Args) {
			return e.fail("predicate %s: arity", n.Name)
		}
		// evaluate arguments first, bind as variables
		saved := map[string]SV{}
		had := map[string]bool{}
		var vals []SV
		for _, a := range n.Args {
			vals = append(vals, e.eval(a))
		}
		for i, pn := range pr.Params {
			if old, ok := e.Vars[pn]; ok {
				saved[pn] = old
				had[pn] = true
			}
			v := vals[i]
			if t := c.U.resolveType(pr.Alias, pr.Types[i]); t != nil {
				v.GoT = t
				if v.IsNil {
					v = SV{T: nilOfSort(c.U.sortOfType(t)), GoT: t}
				}
			}
			e.Vars[pn] = v
		}
		savedAlias := e.Alias
		e.Alias = pr.Alias
		r := e.eval(pr.Body)
		e.Alias = savedAlias
		for _, pn := range pr.Params {
			delete(e.Vars, pn)
			if had[pn] {
				e.Vars[pn] = saved[pn]
			}
		}
		return r
	}
	switch n.Name {
	case "is", "has":
		if len(n.Args) != 2 {
			return e.fail("%s(err, Sentinel)", n.Name)
		}
		x := e.eval(n.Args[0])
		s := e.eval(n.Args[1])
		if x.T.Sort != SErr || s.T.Sort != SErr {
			return e.fail("%s: arguments must be errors in %s", n.Name, n)
		}
		if n.Name == "is" {
			return SV{T: tEq(x.T, s.T)}
		}
		// has: the sentinel bit of s is set in x
		sc, ok := s.T.C.(string)
		if !ok {
			return e.fail("has: second argument must be a sentinel")
		}
		var v int
		fmt.Sscanf(sc, "err:%x", &v)
		for bit := 0; bit < 11; bit++ {
			if v == (1<<11)|(1<<uint(bit)) {
				return SV{T: errHas(x.T, bit)}
			}
		}
		return e.fail("has: not a sentinel")
	case "single": // exactly one sentinel bit
		x := e.eval(n.Args[0])
		var alts []Term
		for bit := range c.U.SentinelNames {
			alts = append(alts, tEq(x.T, errSentinel(bit)))
		}
		return SV{T: tOr(alts...)}
	case "len":
		x := e.eval(n.Args[0])
		if x.Slice != nil {
			return SV{T: x.Slice.Len}
		}
		if x.T.Sort == SStr {
			return SV{T: tStrLen(x.T)}
		}
		return e.fail("len of %s", n.Args[0])
	case "fresh":
		x := e.eval(n.Args[0])
		saved := e.inOld
		e.inOld = true
		a := e.heapArr(allocKey)
		e.inOld = saved
		return SV{T: tAnd(tNot(tEq(x.T, mkInt(0))), tNot(e.P.norm(tSelect(a, x.T, SBool))))}
	case "allocated":
		x := e.eval(n.Args[0])
		a := e.heapArr(allocKey)
		return SV{T: e.P.norm(tSelect(a, x.T, SBool))}
	case "mapval": // the (Array String Bool) content of a names map
		x := e.eval(n.Args[0])
		m := e.heapArr(mapSBKey)
		return SV{T: e.P.norm(tSelect(m, x.T, SArrSB))}
	case "mapstore":
		m := e.eval(n.Args[0])
		k := e.eval(n.Args[1])
		v := e.eval(n.Args[2])
		return SV{T: tStore(m.T, k.T, v.T)}
	case "f64":
		x := e.eval(n.Args[0])
		if x.T.Sort == SInt {
			if k, ok := x.T.C.(int64); ok {
				return SV{T: mkF64Rat(new(big.Rat).SetInt64(k))}
			}
			return SV{T: Term{S: "((_ to_fp 11 53) RNE (to_real " + x.T.S + "))", Sort: SF64}}
		}
		return SV{T: Term{S: "((_ to_fp 11 53) RNE " + x.T.S + ")", Sort: SF64}}
	case "real":
		x := e.eval(n.Args[0])
		switch x.T.Sort {
		case SInt:
			return SV{T: app(SReal, "to_real", x.T)}
		case SF64:
			return SV{T: app(SReal, "fp.to_real", x.T)}
		}
		return x
	case "ite":
		cnd := e.evalBool(n.Args[0])
		a := e.eval(n.Args[1])
		b := e.eval(n.Args[2])
		a, b = coerceLit(a, b)
		return SV{T: tIte(cnd, a.T, b.T), GoT: a.GoT}
	}
	if sig, ok := c.U.Specs[n.Name]; ok {
		if len(sig.Params) != len(n.Args) {
			return e.fail("spec function %s expects %d arguments, got %d", n.Name, len(sig.Params), len(n.Args))
		}
		var args []Term
		for i, a := range n.Args {
			v := e.eval(a)
			if v.IsNil {
				v = SV{T: nilOfSort(sig.Params[i])}
			}
			if v.IsLit && v.T.Sort != sig.Params[i] {
				v, _ = coerceLit(v, SV{T: Term{Sort: sig.Params[i]}})
			}
			if v.Slice != nil && sig.Params[i] == SArrIS {
				v.T = v.Slice.Arr
			}
			if v.T.Sort != sig.Params[i] && e.Err == nil {
				return e.fail("spec function %s: argument %d has sort %s, want %s (in %s)", n.Name, i, v.T.Sort, sig.Params[i], n)
			}
			args = append(args, v.T)
		}
		if t, ok := c.U.foldSpecApp(n.Name, args); ok {
			return SV{T: t}
		}
		return SV{T: e.P.norm(app(sig.Result, n.Name, args...))}
	}
	return e.fail("unknown function %s", n.Name)
}
