package main

// Generation of the table part of the prelude from spec/tables.json: value constants (integers read from the
// code's own constant declarations, by name), validity predicates, weights (Real and Float64), code tables.

import (
	"encoding/json"
	"fmt"
	"go/constant"
	"math/big"
	"os"
	"path/filepath"
	"strings"
)

type SpecValue struct {
	Code  string `json:"code"`
	Const string `json:"const"`
	W     string `json:"w"`
	WU    string `json:"wU"`
	WC    string `json:"wC"`
	N     int64  `json:"-"`
}

type SpecMetric struct {
	Name       string      `json:"name"`
	Type       string      `json:"type"`
	Get        string      `json:"get"`
	Level      string      `json:"level"`
	Unknown    string      `json:"unknown"`
	NotDefined string      `json:"notdefined"`
	Modifies   string      `json:"modifies"`
	Scoped     bool        `json:"scoped"`
	Values     []SpecValue `json:"values"`
	UnknownN   int64       `json:"-"`
}

type SpecVersionLabel struct {
	Label string `json:"label"`
	Const string `json:"const"`
	N     int64  `json:"-"`
}

type SpecSeverity struct {
	Name  string `json:"name"`
	Const string `json:"const"`
	Lo    int    `json:"lo"`
	Hi    int    `json:"hi"`
	N     int64  `json:"-"`
}

type SpecFamily struct {
	Severity []SpecSeverity     `json:"severity"`
	Alias    string             `json:"alias"`
	Versions []SpecVersionLabel `json:"versions"`
	Metrics  []*SpecMetric      `json:"metrics"`
}

type SpecTables struct {
	V3 *SpecFamily `json:"v3"`
	V2 *SpecFamily `json:"v2"`
}

func (f *SpecFamily) metric(name string) *SpecMetric {
	for _, m := range f.Metrics {
		if m.Name == name {
			return m
		}
	}
	return nil
}

func ratLit(s string) (string, string) {
	r, ok := new(big.Rat).SetString(s)
	if !ok {
		panic("bad weight " + s)
	}
	return mkRealRat(r).S, mkF64Rat(r).S
}

func (u *Universe) loadSpecTables(specDir string) (*SpecTables, string, error) {
	data, err := os.ReadFile(filepath.Join(specDir, "tables.json"))
	if err != nil {
		return nil, "", err
	}
	var st SpecTables
	if err := json.Unmarshal(data, &st); err != nil {
		return nil, "", err
	}
	var sb strings.Builder
	sb.WriteString("; ---- generated from spec/tables.json; integers are the code's own constant values ----\n")
	for _, fam := range []struct {
		v string
		f *SpecFamily
	}{{"v3", st.V3}, {"v2", st.V2}} {
		v, f := fam.v, fam.f
		lookup := func(name string) (int64, error) {
			c, ok := u.lookupConst(f.Alias, name)
			if !ok {
				return 0, fmt.Errorf("spec table: constant %s not found in package %s", name, f.Alias)
			}
			n, _ := constant.Int64Val(c.Val())
			return n, nil
		}
		for i := range f.Versions {
			n, err := lookup(f.Versions[i].Const)
			if err != nil {
				return nil, "", err
			}
			f.Versions[i].N = n
			fmt.Fprintf(&sb, "(define-fun %s_VER_%s () Int %d)\n", v, strings.ReplaceAll(f.Versions[i].Label, ".", "_"), n)
		}
		if len(f.Versions) > 0 {
			var alts, pr, pa []string
			for _, vl := range f.Versions {
				alts = append(alts, fmt.Sprintf("(= x %d)", vl.N))
				pr = append(pr, fmt.Sprintf("(ite (= x %d) %s ", vl.N, smtStringLit(vl.Label)))
				pa = append(pa, fmt.Sprintf("(ite (= s %s) %d ", smtStringLit(vl.Label), vl.N))
			}
			fmt.Fprintf(&sb, "(define-fun valid_%s_VER ((x Int)) Bool (or %s))\n", v, strings.Join(alts, " "))
			fmt.Fprintf(&sb, "(define-fun code_%s_VER ((x Int)) String %s\"unknown\"%s)\n", v, strings.Join(pr, ""), strings.Repeat(")", len(pr)))
			fmt.Fprintf(&sb, "(define-fun parse_%s_VER ((s String)) Int %s0%s)\n", v, strings.Join(pa, ""), strings.Repeat(")", len(pa)))
		}
		if len(f.Severity) > 0 {
			var chain []string
			for i := range f.Severity {
				n, err := lookup(f.Severity[i].Const)
				if err != nil {
					return nil, "", err
				}
				f.Severity[i].N = n
				fmt.Fprintf(&sb, "(define-fun %s_SEV_%s () Int %d)\n", v, f.Severity[i].Name, n)
				chain = append(chain, fmt.Sprintf("(ite (and (<= %d k) (<= k %d)) %d ", f.Severity[i].Lo, f.Severity[i].Hi, n))
			}
			un, err := lookup("SeverityUnknown")
			if err != nil {
				return nil, "", err
			}
			fmt.Fprintf(&sb, "(define-fun %s_SEV_Unknown () Int %d)\n", v, un)
			// severity of a score k/10 on the rating scale of the specification
			fmt.Fprintf(&sb, "(define-fun %s_sev_of_k ((k Int)) Int %s%d%s)\n", v, strings.Join(chain, ""), un, strings.Repeat(")", len(chain)))
			var alts []string
			for _, sv := range f.Severity {
				alts = append(alts, fmt.Sprintf("(= x %d)", sv.N))
			}
			fmt.Fprintf(&sb, "(define-fun valid_%s_SEV ((x Int)) Bool (or %s))\n", v, strings.Join(alts, " "))
		}
		for _, m := range f.Metrics {
			un, err := lookup(m.Unknown)
			if err != nil {
				return nil, "", err
			}
			m.UnknownN = un
			for i := range m.Values {
				n, err := lookup(m.Values[i].Const)
				if err != nil {
					return nil, "", err
				}
				m.Values[i].N = n
			}
			pre := v + "_" + m.Name
			fmt.Fprintf(&sb, "(define-fun unk_%s () Int %d)\n", pre, un)
			var alts []string
			for _, val := range m.Values {
				fmt.Fprintf(&sb, "(define-fun %s_%s () Int %d)\n", pre, val.Code, val.N)
				alts = append(alts, fmt.Sprintf("(= x %d)", val.N))
			}
			fmt.Fprintf(&sb, "(define-fun valid_%s ((x Int)) Bool (or %s))\n", pre, strings.Join(alts, " "))
			// defined = valid and not "Not Defined"
			var dalts []string
			for _, val := range m.Values {
				if val.Code != m.NotDefined {
					dalts = append(dalts, fmt.Sprintf("(= x %d)", val.N))
				}
			}
			fmt.Fprintf(&sb, "(define-fun defined_%s ((x Int)) Bool (or %s))\n", pre, strings.Join(dalts, " "))
			// codes
			var pc, cp []string
			for _, val := range m.Values {
				pc = append(pc, fmt.Sprintf("(ite (= s %s) %d ", smtStringLit(val.Code), val.N))
				cp = append(cp, fmt.Sprintf("(ite (= x %d) %s ", val.N, smtStringLit(val.Code)))
			}
			fmt.Fprintf(&sb, "(define-fun parse_%s ((s String)) Int %s%d%s)\n", pre, strings.Join(pc, ""), un, strings.Repeat(")", len(pc)))
			fmt.Fprintf(&sb, "(define-fun code_%s ((x Int)) String %s\"\"%s)\n", pre, strings.Join(cp, ""), strings.Repeat(")", len(cp)))
			// weights
			switch {
			case m.Scoped:
				var ru, rc, fu, fc []string
				for _, val := range m.Values {
					a, b := ratLit(val.WU)
					c, d := ratLit(val.WC)
					ru = append(ru, fmt.Sprintf("(ite (= x %d) %s ", val.N, a))
					fu = append(fu, fmt.Sprintf("(ite (= x %d) %s ", val.N, b))
					rc = append(rc, fmt.Sprintf("(ite (= x %d) %s ", val.N, c))
					fc = append(fc, fmt.Sprintf("(ite (= x %d) %s ", val.N, d))
				}
				cl := strings.Repeat(")", len(ru))
				fmt.Fprintf(&sb, "(define-fun wR_%s ((x Int) (changed Bool)) Real (ite changed %s0.0%s %s0.0%s))\n", pre, strings.Join(rc, ""), cl, strings.Join(ru, ""), cl)
				fmt.Fprintf(&sb, "(define-fun w_%s ((x Int) (changed Bool)) F64 (ite changed %s(_ +zero 11 53)%s %s(_ +zero 11 53)%s))\n", pre, strings.Join(fc, ""), cl, strings.Join(fu, ""), cl)
			case m.Modifies != "":
				b := f.metric(m.Modifies)
				var eff []string
				for _, val := range m.Values {
					if val.Code == m.NotDefined {
						eff = append(eff, fmt.Sprintf("(ite (= m %d) b ", val.N))
						continue
					}
					var bn int64 = -1
					for _, bv := range b.Values {
						if bv.Code == val.Code {
							bn = bv.N
						}
					}
					if bn < 0 {
						return nil, "", fmt.Errorf("spec table: %s value %s has no base counterpart", m.Name, val.Code)
					}
					eff = append(eff, fmt.Sprintf("(ite (= m %d) %d ", val.N, bn))
				}
				fmt.Fprintf(&sb, "(define-fun eff_%s_%s ((m Int) (b Int)) Int %s%d%s)\n", v, m.Modifies, strings.Join(eff, ""), b.UnknownN, strings.Repeat(")", len(eff)))
			case len(m.Values) > 0 && m.Values[0].W != "":
				var rr, ff []string
				for _, val := range m.Values {
					a, b := ratLit(val.W)
					rr = append(rr, fmt.Sprintf("(ite (= x %d) %s ", val.N, a))
					ff = append(ff, fmt.Sprintf("(ite (= x %d) %s ", val.N, b))
				}
				cl := strings.Repeat(")", len(rr))
				fmt.Fprintf(&sb, "(define-fun wR_%s ((x Int)) Real %s0.0%s)\n", pre, strings.Join(rr, ""), cl)
				fmt.Fprintf(&sb, "(define-fun w_%s ((x Int)) F64 %s(_ +zero 11 53)%s)\n", pre, strings.Join(ff, ""), cl)
			}
		}
	}
	sb.WriteString(tokenTheory(&st))
	return &st, sb.String(), nil
}

// tokenTheory: the token view of a vector string, from the contract of strings.Split (A1), and the declarative
// well-formedness predicates of C07/C08 in the properties' own words.
func tokenTheory(st *SpecTables) string {
	var sb strings.Builder
	sb.WriteString(`; ---- token theory (generated): pieces of strings.Split(v, "/") and strings.Split(t, ":") ----
(define-fun part0 ((t String)) String (select (split_colon t) 0))
(define-fun part1 ((t String)) String (select (split_colon t) 1))
(define-fun shape ((t String)) Bool (and (= (nsplit_colon t) 2) (not (= (str.len (part0 t)) 0)) (not (= (str.len (part1 t)) 0))))
(define-fun nm ((t String)) String (part0 t))
(define-fun vl ((t String)) String (part1 t))
(define-fun tok ((v String) (j Int)) String (select (split_slash v) j))
(define-fun ntok ((v String)) Int (nsplit_slash v))
(define-fun prefix_shape ((t String)) Bool (and (= (nsplit_colon t) 2) (= (part0 t) "CVSS")))
(define-fun prefix_ok_v3 ((t String)) Bool (and (prefix_shape t) (not (= (parse_v3_VER (part1 t)) 0))))
`)
	for _, fam := range []struct {
		v string
		f *SpecFamily
	}{{"v3", st.V3}, {"v2", st.V2}} {
		v, f := fam.v, fam.f
		levels := []string{"base", "temporal", "environmental"}
		short := map[string]string{"base": "base", "temporal": "temporal", "environmental": "env"}
		var cumNames, cumVals []string
		for _, lv := range levels {
			var names, vals []string
			for _, m := range f.Metrics {
				if m.Level != lv {
					continue
				}
				names = append(names, fmt.Sprintf("(= s %s)", smtStringLit(m.Name)))
				vals = append(vals, fmt.Sprintf("(and (= (nm t) %s) (not (= (parse_%s_%s (vl t)) %d)))", smtStringLit(m.Name), v, m.Name, m.UnknownN))
			}
			fmt.Fprintf(&sb, "(define-fun isname_%s_%s ((s String)) Bool (or %s))\n", v, short[lv], strings.Join(names, " "))
			cumNames = append(cumNames, names...)
			cumVals = append(cumVals, vals...)
			// "upto": names / valid tokens of the decoder of this level (its own and the lower levels)
			fmt.Fprintf(&sb, "(define-fun isname_%s_upto_%s ((s String)) Bool (or %s))\n", v, short[lv], strings.Join(cumNames, " "))
			fmt.Fprintf(&sb, "(define-fun tokval_%s_upto_%s ((t String)) Bool (or %s))\n", v, short[lv], strings.Join(cumVals, " "))
		}
		if v == "v2" {
			// token-level well-formedness (C08): exactly the canonical sequence of the level's groups
			pos := 0
			var groupPred, groupHint, groupFlat, groupNames []string
			for _, lv := range levels {
				var conj, hint, flat, nms []string
				for _, m := range f.Metrics {
					if m.Level != lv {
						continue
					}
					conj = append(conj, fmt.Sprintf("(shape (tok v %d)) (= (nm (tok v %d)) %s) (not (= (parse_v2_%s (vl (tok v %d))) %d))", pos, pos, smtStringLit(m.Name), m.Name, pos, m.UnknownN))
					// instance of the C20 round-trip lemma (parse(s) != unknown ==> code(parse(s)) == s) at this token
					hint = append(hint, fmt.Sprintf("(=> (not (= (parse_v2_%s (vl (tok v %d))) %d)) (= (code_v2_%s (parse_v2_%s (vl (tok v %d)))) (vl (tok v %d))))", m.Name, pos, m.UnknownN, m.Name, m.Name, pos, pos))
					sep := "/"
					if pos == 0 {
						sep = ""
					}
					flat = append(flat, fmt.Sprintf("%s (vl (tok v %d))", smtStringLit(sep+m.Name+":"), pos))
					nms = append(nms, fmt.Sprintf("(shape (tok v %d)) (= (nm (tok v %d)) %s)", pos, pos, smtStringLit(m.Name)))
					pos++
				}
				groupPred = append(groupPred, strings.Join(conj, " "))
				groupHint = append(groupHint, strings.Join(hint, " "))
				groupFlat = append(groupFlat, strings.Join(flat, " "))
				groupNames = append(groupNames, strings.Join(nms, " "))
			}
			rep6 := strings.NewReplacer("(tok v 9)", "(tok v 6)", "(tok v 10)", "(tok v 7)", "(tok v 11)", "(tok v 8)", "(tok v 12)", "(tok v 9)", "(tok v 13)", "(tok v 10)")
			// A1 instance in flattened form: a vector of n tokens "Name:value" with the given names is the concatenation
			// "N0:" v0 "/N1:" v1 ...  (Join(Split(v,"/"),"/") = v and token = name ":" value)
			flatDef := func(n int, names, flat string) {
				fmt.Fprintf(&sb, "(define-fun a1_flat%d ((v String)) Bool (=> (and (= (ntok v) %d) %s) (= v (str.++ %s))))\n", n, n, names, flat)
			}
			flatDef(6, groupNames[0], groupFlat[0])
			flatDef(9, groupNames[0]+" "+groupNames[1], groupFlat[0]+" "+groupFlat[1])
			flatDef(11, groupNames[0]+" "+rep6.Replace(groupNames[2]), groupFlat[0]+" "+rep6.Replace(groupFlat[2]))
			flatDef(14, groupNames[0]+" "+groupNames[1]+" "+groupNames[2], groupFlat[0]+" "+groupFlat[1]+" "+groupFlat[2])
			hintAt6 := strings.NewReplacer("(tok v 9)", "(tok v 6)", "(tok v 10)", "(tok v 7)", "(tok v 11)", "(tok v 8)", "(tok v 12)", "(tok v 9)", "(tok v 13)", "(tok v 10)").Replace(groupHint[2])
			fmt.Fprintf(&sb, "(define-fun c20_hint_s6 ((v String)) Bool (and %s))\n", groupHint[0])
			fmt.Fprintf(&sb, "(define-fun c20_hint_s9 ((v String)) Bool (and %s %s))\n", groupHint[0], groupHint[1])
			fmt.Fprintf(&sb, "(define-fun c20_hint_s11 ((v String)) Bool (and %s %s))\n", groupHint[0], hintAt6)
			fmt.Fprintf(&sb, "(define-fun c20_hint_s14 ((v String)) Bool (and %s %s %s))\n", groupHint[0], groupHint[1], groupHint[2])
			// group positions: base 0..5, then temporal at 6..8 (if present), environmental after the groups before it
			envAt6 := strings.NewReplacer("(tok v 9)", "(tok v 6)", "(tok v 10)", "(tok v 7)", "(tok v 11)", "(tok v 8)", "(tok v 12)", "(tok v 9)", "(tok v 13)", "(tok v 10)").Replace(groupPred[2])
			// the four canonical shapes: 6 = base; 9 = base+temporal; 11 = base+environmental; 14 = all three groups
			fmt.Fprintf(&sb, "(define-fun wf_v2_s6 ((v String)) Bool (and (= (ntok v) 6) %s))\n", groupPred[0])
			fmt.Fprintf(&sb, "(define-fun wf_v2_s9 ((v String)) Bool (and (= (ntok v) 9) %s %s))\n", groupPred[0], groupPred[1])
			fmt.Fprintf(&sb, "(define-fun wf_v2_s11 ((v String)) Bool (and (= (ntok v) 11) %s %s))\n", groupPred[0], envAt6)
			fmt.Fprintf(&sb, "(define-fun wf_v2_s14 ((v String)) Bool (and (= (ntok v) 14) %s %s %s))\n", groupPred[0], groupPred[1], groupPred[2])
			sb.WriteString("(define-fun wf_v2_base ((v String)) Bool (wf_v2_s6 v))\n")
			sb.WriteString("(define-fun wf_v2_temporal ((v String)) Bool (or (wf_v2_s6 v) (wf_v2_s9 v)))\n")
			sb.WriteString("(define-fun wf_v2_env ((v String)) Bool (or (wf_v2_s6 v) (wf_v2_s9 v) (wf_v2_s11 v) (wf_v2_s14 v)))\n")
			// A1 instances (contract of strings.Split / strings.Join), as named hypotheses
			sb.WriteString("(define-fun a1_colon ((t String)) Bool (=> (= (nsplit_colon t) 2) (= t (str.++ (part0 t) \":\" (part1 t)))))\n")
			for _, n := range []int{6, 9, 11, 14} {
				var parts, cols []string
				for k := 0; k < n; k++ {
					if k > 0 {
						parts = append(parts, "\"/\"")
					}
					parts = append(parts, fmt.Sprintf("(tok v %d)", k))
					cols = append(cols, fmt.Sprintf("(a1_colon (tok v %d))", k))
				}
				fmt.Fprintf(&sb, "(define-fun a1_join%d ((v String)) Bool (and (=> (= (ntok v) %d) (= v (str.++ %s))) %s))\n", n, n, strings.Join(parts, " "), strings.Join(cols, " "))
			}
			// Split(Join(pieces)) = pieces for '/'-free pieces: v is the join of n pieces given as an array
			sb.WriteString("(define-fun slashfree ((s String)) Bool (not (str.contains s \"/\")))\n")
		}
		if v == "v3" {
			for _, lv := range levels {
				var ex []string
				for _, m := range f.Metrics {
					if m.Level == "base" {
						ex = append(ex, fmt.Sprintf("(exists ((j Int)) (and (<= 1 j) (< j (ntok v)) (= (nm (tok v j)) %s)))", smtStringLit(m.Name)))
					}
				}
				fmt.Fprintf(&sb, `(define-fun wf_v3_%s ((v String)) Bool
  (and (prefix_ok_v3 (tok v 0))
       (forall ((j Int)) (=> (and (<= 1 j) (< j (ntok v))) (and (shape (tok v j)) (tokval_v3_upto_%s (tok v j)))))
       (forall ((j Int) (k Int)) (=> (and (<= 1 j) (< j k) (< k (ntok v))) (not (= (nm (tok v j)) (nm (tok v k))))))
       %s))
`, short[lv], short[lv], strings.Join(ex, "\n       "))
			}
		}
	}
	return sb.String()
}

// buildPrelude assembles the full prelude text and registers its signatures.
func (u *Universe) buildPrelude(specDir string, oracle string) (*SpecTables, error) {
	st, tables, err := u.loadSpecTables(specDir)
	if err != nil {
		return nil, err
	}
	var sb strings.Builder
	for _, f := range []string{"base.smt2"} {
		b, err := os.ReadFile(filepath.Join(specDir, f))
		if err != nil {
			return nil, err
		}
		sb.Write(b)
	}
	sb.WriteString(tables)
	for _, f := range []string{"first_v3.smt2", "first_v2.smt2", "tokens.smt2"} {
		b, err := os.ReadFile(filepath.Join(specDir, f))
		if err != nil {
			if os.IsNotExist(err) {
				continue
			}
			return nil, err
		}
		sb.Write(b)
	}
	u.BasePrelude = sb.String()
	if oracle == "" {
		oracle = "(declare-fun pow13 (F64) F64)\n(declare-fun pow15 (F64) F64)\n(declare-fun fmt_f64 (F64) String)\n"
	}
	sb.WriteString(oracle)
	u.Prelude = sb.String()
	u.Specs = map[string]*SpecSig{}
	parsePreludeSigs(u.Prelude, u.Specs)
	u.SpecDefs = parseSpecDefs(u.BasePrelude)
	if u.Oracle == nil {
		u.Oracle = newOracle()
	}
	return st, nil
}
