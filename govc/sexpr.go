package main

// A small evaluator for the Int/Bool/String fragment of the prelude: applications of prelude functions to
// constant arguments are folded on the Go side (only for sorts Int, Bool and String; Real and Float64 terms are
// always left to the solver).

import (
	"strconv"
	"strings"
)

type SX struct {
	Atom  string
	List  []*SX
	IsStr bool
}

func parseSX(s string) []*SX {
	var out []*SX
	i := 0
	var parse func() *SX
	skip := func() {
		for i < len(s) {
			c := s[i]
			if c == ' ' || c == '\n' || c == '\t' || c == '\r' {
				i++
			} else if c == ';' {
				for i < len(s) && s[i] != '\n' {
					i++
				}
			} else {
				break
			}
		}
	}
	parse = func() *SX {
		skip()
		if i >= len(s) {
			return nil
		}
		if s[i] == '(' {
			i++
			n := &SX{List: []*SX{}}
			for {
				skip()
				if i >= len(s) {
					return n
				}
				if s[i] == ')' {
					i++
					return n
				}
				n.List = append(n.List, parse())
			}
		}
		if s[i] == '"' {
			j := i + 1
			var sb strings.Builder
			for j < len(s) {
				if s[j] == '"' {
					if j+1 < len(s) && s[j+1] == '"' {
						sb.WriteByte('"')
						j += 2
						continue
					}
					break
				}
				sb.WriteByte(s[j])
				j++
			}
			i = j + 1
			return &SX{Atom: sb.String(), IsStr: true}
		}
		j := i
		for j < len(s) && !strings.ContainsRune(" \n\t\r()", rune(s[j])) {
			j++
		}
		a := s[i:j]
		i = j
		return &SX{Atom: a}
	}
	for {
		skip()
		if i >= len(s) {
			break
		}
		out = append(out, parse())
	}
	return out
}

type SpecDef struct {
	Name   string
	Params []string
	PSorts []string
	Result string
	Body   *SX
}

func parseSpecDefs(prelude string) map[string]*SpecDef {
	defs := map[string]*SpecDef{}
	for _, f := range parseSX(prelude) {
		if f == nil || len(f.List) < 5 || f.List[0].Atom != "define-fun" {
			continue
		}
		d := &SpecDef{Name: f.List[1].Atom, Body: f.List[4]}
		for _, p := range f.List[2].List {
			d.Params = append(d.Params, p.List[0].Atom)
			d.PSorts = append(d.PSorts, sxString(p.List[1]))
		}
		d.Result = canonSort(sxString(f.List[3]))
		defs[d.Name] = d
	}
	return defs
}

func sxString(x *SX) string {
	if x.List == nil {
		if x.IsStr {
			return smtStringLit(x.Atom)
		}
		return x.Atom
	}
	var parts []string
	for _, c := range x.List {
		parts = append(parts, sxString(c))
	}
	return "(" + strings.Join(parts, " ") + ")"
}

// evalSX evaluates an expression of the foldable fragment; ok=false if anything outside it is met.
func (u *Universe) evalSX(x *SX, env map[string]interface{}, depth int) (interface{}, bool) {
	if depth > 40 {
		return nil, false
	}
	if x.List == nil {
		if x.IsStr {
			return decodeSMTString(x.Atom), true
		}
		if v, ok := env[x.Atom]; ok {
			return v, true
		}
		switch x.Atom {
		case "true":
			return true, true
		case "false":
			return false, true
		}
		if n, err := strconv.ParseInt(x.Atom, 10, 64); err == nil {
			return n, true
		}
		if d, ok := u.SpecDefs[x.Atom]; ok && len(d.Params) == 0 {
			return u.evalSX(d.Body, map[string]interface{}{}, depth+1)
		}
		return nil, false
	}
	if len(x.List) == 0 || x.List[0].List != nil {
		return nil, false
	}
	op := x.List[0].Atom
	args := x.List[1:]
	switch op {
	case "ite":
		c, ok := u.evalSX(args[0], env, depth+1)
		if !ok {
			return nil, false
		}
		if c.(bool) {
			return u.evalSX(args[1], env, depth+1)
		}
		return u.evalSX(args[2], env, depth+1)
	case "and", "or":
		res := op == "and"
		for _, a := range args {
			v, ok := u.evalSX(a, env, depth+1)
			if !ok {
				return nil, false
			}
			b, isB := v.(bool)
			if !isB {
				return nil, false
			}
			if op == "and" && !b {
				return false, true
			}
			if op == "or" && b {
				return true, true
			}
		}
		return res, true
	case "not":
		v, ok := u.evalSX(args[0], env, depth+1)
		if !ok {
			return nil, false
		}
		b, isB := v.(bool)
		if !isB {
			return nil, false
		}
		return !b, true
	case "=>":
		a, ok1 := u.evalSX(args[0], env, depth+1)
		if !ok1 {
			return nil, false
		}
		if !a.(bool) {
			return true, true
		}
		return u.evalSX(args[1], env, depth+1)
	case "=", "<=", "<", ">=", ">", "+", "-", "*":
		var vs []interface{}
		for _, a := range args {
			v, ok := u.evalSX(a, env, depth+1)
			if !ok {
				return nil, false
			}
			vs = append(vs, v)
		}
		if op == "=" {
			if len(vs) != 2 {
				return nil, false
			}
			return vs[0] == vs[1], true
		}
		var ns []int64
		for _, v := range vs {
			n, ok := v.(int64)
			if !ok {
				return nil, false
			}
			ns = append(ns, n)
		}
		switch op {
		case "<=":
			return ns[0] <= ns[1], true
		case "<":
			return ns[0] < ns[1], true
		case ">=":
			return ns[0] >= ns[1], true
		case ">":
			return ns[0] > ns[1], true
		case "+":
			var t int64
			for _, n := range ns {
				t += n
			}
			return t, true
		case "-":
			if len(ns) == 1 {
				return -ns[0], true
			}
			return ns[0] - ns[1], true
		case "*":
			t := int64(1)
			for _, n := range ns {
				t *= n
			}
			return t, true
		}
	}
	if d, ok := u.SpecDefs[op]; ok && len(d.Params) == len(args) {
		switch d.Result {
		case SInt, SBool, SStr:
		default:
			return nil, false
		}
		env2 := map[string]interface{}{}
		for i, a := range args {
			v, ok := u.evalSX(a, env, depth+1)
			if !ok {
				return nil, false
			}
			env2[d.Params[i]] = v
		}
		return u.evalSX(d.Body, env2, depth+1)
	}
	return nil, false
}

func decodeSMTString(s string) string {
	// handles \u{...} escapes produced by smtStringLit
	var sb strings.Builder
	for i := 0; i < len(s); i++ {
		if strings.HasPrefix(s[i:], `\u{`) {
			j := strings.Index(s[i:], "}")
			if j > 0 {
				if n, err := strconv.ParseInt(s[i+3:i+j], 16, 32); err == nil {
					sb.WriteRune(rune(n))
					i += j
					continue
				}
			}
		}
		sb.WriteByte(s[i])
	}
	return sb.String()
}

// foldSpecApp folds f(args) when all arguments are constants and f is in the foldable fragment.
func (u *Universe) foldSpecApp(name string, args []Term) (Term, bool) {
	d, ok := u.SpecDefs[name]
	if !ok || len(d.Params) != len(args) {
		return Term{}, false
	}
	switch d.Result {
	case SInt, SBool, SStr:
	default:
		return Term{}, false
	}
	env := map[string]interface{}{}
	for i, a := range args {
		switch v := a.C.(type) {
		case int64:
			env[d.Params[i]] = v
		case bool:
			env[d.Params[i]] = v
		case string:
			if a.Sort != SStr {
				return Term{}, false
			}
			env[d.Params[i]] = v
		default:
			return Term{}, false
		}
	}
	v, ok := u.evalSX(d.Body, env, 0)
	if !ok {
		return Term{}, false
	}
	switch x := v.(type) {
	case int64:
		return mkInt(x), true
	case bool:
		return mkBool(x), true
	case string:
		return mkStr(x), true
	}
	return Term{}, false
}
