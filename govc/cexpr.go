package main

// Contract expression language: Go-like expressions plus ==>, <==>, ===, forall/exists, old(), result.

import (
	"fmt"
	"strings"
	"unicode"
)

type Node struct {
	Op   string  // "ident","int","float","str","bool","nil","call","field","index","un","bin","forall","exists","old"
	Name string  // identifier / operator / field name / function name
	Args []*Node // operands
	Vars []BoundVar
	Pos  string
}

type BoundVar struct{ Name, Type string }

func (n *Node) String() string {
	switch n.Op {
	case "ident", "int", "float", "bool", "nil":
		return n.Name
	case "str":
		return fmt.Sprintf("%q", n.Name)
	case "call":
		var as []string
		for _, a := range n.Args {
			as = append(as, a.String())
		}
		return n.Name + "(" + strings.Join(as, ", ") + ")"
	case "field":
		return n.Args[0].String() + "." + n.Name
	case "index":
		return n.Args[0].String() + "[" + n.Args[1].String() + "]"
	case "un":
		return n.Name + n.Args[0].String()
	case "bin":
		return "(" + n.Args[0].String() + " " + n.Name + " " + n.Args[1].String() + ")"
	case "old":
		return "old(" + n.Args[0].String() + ")"
	case "forall", "exists":
		var vs []string
		for _, v := range n.Vars {
			vs = append(vs, v.Name+" "+v.Type)
		}
		return n.Op + " " + strings.Join(vs, ", ") + " :: " + n.Args[0].String()
	}
	return "?"
}

type tok struct {
	kind string // id, int, float, str, op, eof
	s    string
}

func lexExpr(src string) ([]tok, error) {
	var out []tok
	i := 0
	for i < len(src) {
		c := src[i]
		switch {
		case c == ' ' || c == '\t' || c == '\n':
			i++
		case unicode.IsLetter(rune(c)) || c == '_':
			j := i
			for j < len(src) && (unicode.IsLetter(rune(src[j])) || unicode.IsDigit(rune(src[j])) || src[j] == '_') {
				j++
			}
			out = append(out, tok{"id", src[i:j]})
			i = j
		case unicode.IsDigit(rune(c)):
			j := i
			isF := false
			for j < len(src) && (unicode.IsDigit(rune(src[j])) || (src[j] == '.' && j+1 < len(src) && unicode.IsDigit(rune(src[j+1])))) {
				if src[j] == '.' {
					isF = true
				}
				j++
			}
			if isF {
				out = append(out, tok{"float", src[i:j]})
			} else {
				out = append(out, tok{"int", src[i:j]})
			}
			i = j
		case c == '"':
			j := i + 1
			var sb strings.Builder
			for j < len(src) && src[j] != '"' {
				if src[j] == '\\' && j+1 < len(src) {
					j++
				}
				sb.WriteByte(src[j])
				j++
			}
			if j >= len(src) {
				return nil, fmt.Errorf("unterminated string in %q", src)
			}
			out = append(out, tok{"str", sb.String()})
			i = j + 1
		default:
			ops := []string{"<==>", "==>", "===", "!==", "==", "!=", "<=", ">=", "&&", "||", "::", "<", ">", "+", "-", "*", "/", "!", "(", ")", "[", "]", ",", ".", "{", "}"}
			matched := false
			for _, op := range ops {
				if strings.HasPrefix(src[i:], op) {
					out = append(out, tok{"op", op})
					i += len(op)
					matched = true
					break
				}
			}
			if !matched {
				return nil, fmt.Errorf("unexpected character %q in %q", c, src)
			}
		}
	}
	out = append(out, tok{"eof", ""})
	return out, nil
}

type exprParser struct {
	toks []tok
	p    int
	src  string
}

func parseCExpr(src string) (n *Node, err error) {
	toks, err := lexExpr(src)
	if err != nil {
		return nil, err
	}
	ep := &exprParser{toks: toks, src: src}
	defer func() {
		if r := recover(); r != nil {
			err = fmt.Errorf("parse error in %q: %v", src, r)
		}
	}()
	n = ep.parseIff()
	if ep.peek().kind != "eof" {
		panic(fmt.Sprintf("trailing token %q", ep.peek().s))
	}
	return n, nil
}

func (p *exprParser) peek() tok { return p.toks[p.p] }
func (p *exprParser) next() tok { t := p.toks[p.p]; p.p++; return t }
func (p *exprParser) isOp(s string) bool {
	t := p.peek()
	return t.kind == "op" && t.s == s
}
func (p *exprParser) expect(s string) {
	if !p.isOp(s) {
		panic(fmt.Sprintf("expected %q, got %q", s, p.peek().s))
	}
	p.p++
}

func (p *exprParser) parseIff() *Node {
	l := p.parseImp()
	for p.isOp("<==>") {
		p.next()
		r := p.parseImp()
		l = &Node{Op: "bin", Name: "<==>", Args: []*Node{l, r}}
	}
	return l
}
func (p *exprParser) parseImp() *Node {
	l := p.parseOr()
	if p.isOp("==>") {
		p.next()
		r := p.parseImp()
		return &Node{Op: "bin", Name: "==>", Args: []*Node{l, r}}
	}
	return l
}
func (p *exprParser) parseOr() *Node {
	l := p.parseAnd()
	for p.isOp("||") {
		p.next()
		r := p.parseAnd()
		l = &Node{Op: "bin", Name: "||", Args: []*Node{l, r}}
	}
	return l
}
func (p *exprParser) parseAnd() *Node {
	l := p.parseCmp()
	for p.isOp("&&") {
		p.next()
		r := p.parseCmp()
		l = &Node{Op: "bin", Name: "&&", Args: []*Node{l, r}}
	}
	return l
}
func (p *exprParser) parseCmp() *Node {
	l := p.parseAdd()
	for _, op := range []string{"===", "!==", "==", "!=", "<=", ">=", "<", ">"} {
		if p.isOp(op) {
			p.next()
			r := p.parseAdd()
			return &Node{Op: "bin", Name: op, Args: []*Node{l, r}}
		}
	}
	return l
}
func (p *exprParser) parseAdd() *Node {
	l := p.parseMul()
	for p.isOp("+") || p.isOp("-") {
		op := p.next().s
		r := p.parseMul()
		l = &Node{Op: "bin", Name: op, Args: []*Node{l, r}}
	}
	return l
}
func (p *exprParser) parseMul() *Node {
	l := p.parseUnary()
	for p.isOp("*") || p.isOp("/") {
		op := p.next().s
		r := p.parseUnary()
		l = &Node{Op: "bin", Name: op, Args: []*Node{l, r}}
	}
	return l
}
func (p *exprParser) parseUnary() *Node {
	if p.isOp("!") || p.isOp("-") {
		op := p.next().s
		x := p.parseUnary()
		return &Node{Op: "un", Name: op, Args: []*Node{x}}
	}
	return p.parsePostfix()
}
func (p *exprParser) parsePostfix() *Node {
	x := p.parsePrimary()
	for {
		switch {
		case p.isOp("."):
			p.next()
			t := p.next()
			if t.kind != "id" {
				panic("expected field name after '.'")
			}
			x = &Node{Op: "field", Name: t.s, Args: []*Node{x}}
		case p.isOp("["):
			p.next()
			i := p.parseIff()
			p.expect("]")
			x = &Node{Op: "index", Args: []*Node{x, i}}
		default:
			return x
		}
	}
}
func (p *exprParser) parsePrimary() *Node {
	t := p.next()
	switch t.kind {
	case "int":
		return &Node{Op: "int", Name: t.s}
	case "float":
		return &Node{Op: "float", Name: t.s}
	case "str":
		return &Node{Op: "str", Name: t.s}
	case "id":
		switch t.s {
		case "true", "false":
			return &Node{Op: "bool", Name: t.s}
		case "nil":
			return &Node{Op: "nil", Name: "nil"}
		case "forall", "exists":
			n := &Node{Op: t.s}
			for {
				nm := p.next()
				ty := p.next()
				if nm.kind != "id" || ty.kind != "id" {
					panic("bad bound variable")
				}
				n.Vars = append(n.Vars, BoundVar{nm.s, ty.s})
				if p.isOp(",") {
					p.next()
					continue
				}
				break
			}
			p.expect("::")
			n.Args = []*Node{p.parseIff()}
			return n
		case "old":
			if p.isOp("(") {
				p.next()
				x := p.parseIff()
				p.expect(")")
				return &Node{Op: "old", Args: []*Node{x}}
			}
		}
		if p.isOp("(") {
			p.next()
			n := &Node{Op: "call", Name: t.s}
			if !p.isOp(")") {
				for {
					n.Args = append(n.Args, p.parseIff())
					if p.isOp(",") {
						p.next()
						continue
					}
					break
				}
			}
			p.expect(")")
			return n
		}
		return &Node{Op: "ident", Name: t.s}
	case "op":
		if t.s == "(" {
			x := p.parseIff()
			p.expect(")")
			return x
		}
	}
	panic(fmt.Sprintf("unexpected token %q", t.s))
}

// subst replaces identifiers by nodes (macro expansion of predicates).
func (n *Node) subst(m map[string]*Node) *Node {
	if n == nil {
		return nil
	}
	if n.Op == "ident" {
		if r, ok := m[n.Name]; ok {
			return r
		}
		return n
	}
	c := *n
	if len(n.Vars) > 0 {
		// bound variables shadow
		m2 := map[string]*Node{}
		for k, v := range m {
			m2[k] = v
		}
		for _, v := range n.Vars {
			delete(m2, v.Name)
		}
		m = m2
	}
	c.Args = make([]*Node, len(n.Args))
	for i, a := range n.Args {
		c.Args[i] = a.subst(m)
	}
	return &c
}
