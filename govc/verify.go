package main

// Verification of one function against its contract: symbolic run, ground families, frame obligations.

import (
	"fmt"
	"go/ast"
	"go/types"
	"sort"
	"strings"
	"sync"
)

type FuncResult struct {
	Fn       *FuncInfo
	Obligs   []*Oblig
	Untrans  []string
	Paths    int
	Axioms   map[string]bool
	Families map[string]int // instances per family
}

func hasLabel(have []string, want map[string]bool) bool {
	if want == nil {
		return true
	}
	for _, l := range have {
		if want[l] {
			return true
		}
	}
	return false
}

// familyLabels: the key label of a family is its first label; an ensures clause belongs to the family iff it carries
// that key label (further labels are tags used for property selection only).
func familyLabels(ct *Contract) map[string]bool {
	m := map[string]bool{}
	for _, f := range ct.Families {
		if len(f.Labels) > 0 {
			m[f.Labels[0]] = true
		}
	}
	for _, sc := range ct.Scenarios {
		if len(sc.Labels) > 0 {
			m[sc.Labels[0]] = true
		}
	}
	return m
}

func famKey(f *FamilySpec) map[string]bool {
	if len(f.Labels) == 0 {
		return map[string]bool{}
	}
	return map[string]bool{f.Labels[0]: true}
}

// enter creates the initial path of a function: parameters and receiver are symbols in_<name>.
func (u *Universe) enter(fi *FuncInfo) (*Ctx, *Path, *frame, *SpecEnv) {
	c := newCtx(u, fi)
	p := &Path{C: c, Vars: map[types.Object]Value{}, Heap: map[string]Term{}, CallOrd: map[string]int{}, Facts: map[string]Term{}, CutSeen: map[string]bool{}}
	env := &SpecEnv{C: c, P: p, Old: map[string]Term{}, Vars: map[string]SV{}, Alias: aliasOf(fi.Obj.Pkg())}
	mk := func(v *types.Var, cname string) {
		t := v.Type()
		var val Value
		switch ut := t.Underlying().(type) {
		case *types.Slice:
			if isOptionList(t) {
				nm := "in_" + sanitize(v.Name())
				c.declare(nm, STag)
				val = Term{S: nm, Sort: STag}
			} else if v == fi.Sig.Params().At(fi.Sig.Params().Len()-1) && fi.Sig.Variadic() {
				val = &VariadicVal{Symbolic: true, Name: "in_" + v.Name()}
			} else if b, ok := ut.Elem().Underlying().(*types.Basic); ok && b.Kind() == types.String {
				arr := Term{S: "in_" + v.Name() + "_arr", Sort: SArrIS}
				ln := Term{S: "in_" + v.Name() + "_len", Sort: SInt}
				c.declare(arr.S, SArrIS)
				c.declare(ln.S, SInt)
				p.assume(tIntCmp(">=", ln, mkInt(0)))
				val = &SliceVal{Arr: arr, Off: mkInt(0), Len: ln}
			} else {
				val = OpaqueVal{"param " + v.Name()}
			}
		default:
			srt := u.sortOfType(t)
			if srt == SOpaque {
				val = OpaqueVal{"param " + v.Name()}
			} else {
				nm := "in_" + sanitize(v.Name())
				c.declare(nm, srt)
				val = Term{S: nm, Sort: srt}
			}
		}
		p.Vars[v] = val
		if cname != "" {
			env.Vars[cname] = valueToSV(val, t)
		}
		if v.Name() != "" && v.Name() != "_" {
			if _, dup := env.Vars[v.Name()]; !dup {
				env.Vars[v.Name()] = valueToSV(val, t)
			}
		}
	}
	ct := fi.Contract
	if r := fi.Sig.Recv(); r != nil {
		cn := ""
		if ct != nil {
			cn = ct.Recv
		}
		mk(r, cn)
	}
	for i := 0; i < fi.Sig.Params().Len(); i++ {
		cn := ""
		if ct != nil && i < len(ct.Params) {
			cn = ct.Params[i]
		}
		mk(fi.Sig.Params().At(i), cn)
	}
	var rets []*Path
	fr := &frame{fi: fi, info: fi.Pkg.TypesInfo, rets: &rets, depth: 0}
	{
		var nv []*types.Var
		for i := 0; i < fi.Sig.Results().Len(); i++ {
			nv = append(nv, fi.Sig.Results().At(i))
		}
		if len(nv) > 0 {
			fr.bindNamed(p, nv)
		}
	}
	return c, p, fr, env
}

// bindResults binds result/res0.. in a spec environment for a finished path.
func bindResults(env *SpecEnv, fi *FuncInfo, p *Path) {
	n := fi.Sig.Results().Len()
	for i := 0; i < n && i < len(p.Ret); i++ {
		sv := valueToSV(p.Ret[i], fi.Sig.Results().At(i).Type())
		env.Vars[fmt.Sprintf("res%d", i)] = sv
		if n == 1 {
			env.Vars["result"] = sv
		}
		if fi.Contract != nil && i < len(fi.Contract.Results) {
			env.Vars[fi.Contract.Results[i]] = sv
		}
	}
}

type runMode struct {
	labels   map[string]bool // ensures labels to check (nil = all not owned by families)
	fam      *FamilySpec
	instance string
	noFrame  bool
	noSafety bool
}

// runFunc executes the body from (c,p) and emits post/frame obligations for the finished paths.
func (u *Universe) runFunc(c *Ctx, p *Path, fr *frame, env0 *SpecEnv, mode runMode) int {
	fi := c.Fn
	ct := fi.Contract
	c.NoSafety = mode.noSafety
	live := fr.execBlock([]*Path{p}, fi.Decl.Body.List)
	for _, q := range live {
		if !q.Dead {
			fr.finish(q, nil)
		}
	}
	owned := familyLabels(ct)
	n := 0
	for pi, q := range *fr.rets {
		if q.Dead {
			continue
		}
		n++
		if traceForks && pi < 40 {
			fmt.Println("TRACE", pi, q.Trace, q.Ret)
		}
		if mode.fam != nil && mode.fam.ReplCallee != "" && !q.CutSeen["replace"] {
			continue // path does not pass through the replaced call: covered by the stop family / symbolic run
		}
		env := &SpecEnv{C: c, P: q, Old: map[string]Term{}, Vars: map[string]SV{}, Alias: env0.Alias}
		for k, v := range env0.Vars {
			env.Vars[k] = v
		}
		bindResults(env, fi, q)
		for gk, gv := range q.Ghosts {
			var gt types.Type
			if cg := ct.ghostSpec(gk); cg != nil && cg.Fi != nil && cg.Fi.Sig.Results().Len() > cg.Res {
				gt = cg.Fi.Sig.Results().At(cg.Res).Type()
			}
			env.Vars[gk] = valueToSV(gv, gt)
		}
		for ei, en := range ct.Ensures {
			if mode.labels != nil {
				if !hasLabel(en.Labels, mode.labels) {
					continue
				}
			} else {
				// symbolic run: skip ensures that are owned by a ground family
				skip := false
				for _, l := range en.Labels {
					if owned[l] {
						skip = true
					}
				}
				if skip {
					continue
				}
			}
			g := env.evalBool(en.Expr)
			if env.Err != nil {
				u.problem("%s: ensures %d: %v", fi.Key, ei, env.Err)
				env.Err = nil
				continue
			}
			lbl := strings.Join(en.Labels, ",")
			before := len(c.Obligs)
			q.oblig("post", fmt.Sprintf("%s#post%d[%s]#path%d", fi.Key, ei, lbl, pi), g, fi.Decl.Pos(), en.Labels...)
			if len(c.Obligs) > before {
				c.Obligs[len(c.Obligs)-1].RetTerms = q.Ret
			}
			if len(c.Obligs) > before && en.Expr.Op == "bin" && en.Expr.Name == "==>" && strings.Contains(g.S, "fp.") {
				gd := env.evalBool(en.Expr.Args[0])
				if env.Err == nil && !strings.Contains(gd.S, "fp.") {
					ng := tNot(gd)
					c.Obligs[len(c.Obligs)-1].Lite = &ng
				}
				env.Err = nil
			}
		}
		if !mode.noFrame && ct.HasMod {
			u.frameObligs(c, q, env0, pi)
		}
	}
	return n
}

// frameObligs: every heap array differs from the initial one only at allowed references of pre-allocated objects.
func (u *Universe) frameObligs(c *Ctx, q *Path, env0 *SpecEnv, pi int) {
	fi := c.Fn
	ct := fi.Contract
	allowed := map[string][]Term{}
	envPre := &SpecEnv{C: c, P: q, Old: map[string]Term{}, Vars: env0.Vars, Alias: env0.Alias, inOld: true}
	for _, loc := range ct.Modifies {
		key, _, ref, err := resolveLoc(envPre, loc)
		if err != nil {
			u.problem("%s: modifies %s: %v", fi.Key, loc, err)
			continue
		}
		allowed[key] = append(allowed[key], ref)
	}
	keys := make([]string, 0, len(q.Heap))
	for k := range q.Heap {
		keys = append(keys, k)
	}
	sort.Strings(keys)
	alloc0 := c.initialHeap(allocKey, "")
	for _, k := range keys {
		if k == allocKey {
			continue
		}
		final := q.Heap[k]
		init := Term{S: heapSymbol(k), Sort: final.Sort}
		if final.S == init.S {
			continue
		}
		r := Term{S: "fr_r", Sort: SInt}
		c.declare("fr_r", SInt)
		hyp := []Term{tSelect(alloc0, r, SBool)}
		for _, a := range allowed[k] {
			hyp = append(hyp, tNot(tEq(r, a)))
		}
		elem := "Int"
		if parts := splitTop(final.Sort[1 : len(final.Sort)-1]); len(parts) == 3 {
			elem = canonSort(parts[2])
		}
		goal := tImplies(tAnd(hyp...), tEq(tSelect(final, r, elem), tSelect(init, r, elem)))
		q.oblig("frame", fmt.Sprintf("%s#frame:%s#path%d", fi.Key, k, pi), goal, fi.Decl.Pos(), "frame")
	}
}

// verifySymbolic: the all-inputs run of a function under contract.
func (u *Universe) verifySymbolic(fi *FuncInfo, labels map[string]bool) *FuncResult {
	res := &FuncResult{Fn: fi, Families: map[string]int{}}
	if fi.Contract == nil || fi.Decl.Body == nil {
		return res
	}
	c, p, fr, env := u.enter(fi)
	for i, rq := range fi.Contract.Requires {
		t := env.evalBool(rq.Expr)
		if env.Err != nil {
			u.problem("%s: requires %d: %v", fi.Key, i, env.Err)
			env.Err = nil
			continue
		}
		p.assume(t)
	}
	if p.Dead {
		u.problem("%s: precondition is contradictory", fi.Key)
	}
	// cover obligation: the precondition is satisfiable (checked as "must be sat")
	cov := &Oblig{Name: fi.Key + "#cover:requires", Kind: "cover", Assumes: append([]Term(nil), p.Conds...), Goal: tFalse, Func: fi.Key, Decls: c, Labels: []string{"cover"}}
	c.Obligs = append(c.Obligs, cov)
	res.Paths = u.runFunc(c, p, fr, env, runMode{labels: labels})
	res.Obligs = c.Obligs
	res.Untrans = c.Untrans
	res.Axioms = c.AxiomsUsed
	return res
}

// domainValues returns the integer values of a family item domain ("v3.AV", "v3.VER", "v2.TD").
func (st *SpecTables) domainValues(dom string) ([]int64, []string, error) {
	parts := strings.SplitN(dom, ".", 2)
	if len(parts) != 2 {
		return nil, nil, fmt.Errorf("bad domain %q", dom)
	}
	var fam *SpecFamily
	switch parts[0] {
	case "int":
	case "v3":
		fam = st.V3
	case "v2":
		fam = st.V2
	default:
		return nil, nil, fmt.Errorf("bad domain %q", dom)
	}
	if parts[1] == "VER" {
		var vs []int64
		var ns []string
		for _, v := range fam.Versions {
			vs = append(vs, v.N)
			ns = append(ns, v.Label)
		}
		return vs, ns, nil
	}
	if parts[0] == "int" { // int.LO..HI
		var lo, hi int
		if _, err := fmt.Sscanf(parts[1], "%d..%d", &lo, &hi); err != nil {
			return nil, nil, fmt.Errorf("bad domain %q", dom)
		}
		var vs []int64
		var ns []string
		for k := lo; k <= hi; k++ {
			vs = append(vs, int64(k))
			ns = append(ns, fmt.Sprint(k))
		}
		return vs, ns, nil
	}
	if parts[1] == "SEV" {
		var vs []int64
		var ns []string
		for _, sv := range fam.Severity {
			vs = append(vs, sv.N)
			ns = append(ns, sv.Name)
		}
		return vs, ns, nil
	}
	if parts[1] == "BOOL" {
		return []int64{0, 1}, []string{"false", "true"}, nil
	}
	m := fam.metric(parts[1])
	if m == nil {
		return nil, nil, fmt.Errorf("bad domain %q", dom)
	}
	var vs []int64
	var ns []string
	for _, v := range m.Values {
		vs = append(vs, v.N)
		ns = append(ns, v.Code)
	}
	return vs, ns, nil
}

func domainPred(dom string) string {
	parts := strings.SplitN(dom, ".", 2)
	return "valid_" + parts[0] + "_" + parts[1]
}

// verifyFamily generates the ground instances of one family.
// emit is called with the obligations of each instance (so that they can be streamed to the solver).
func (u *Universe) verifyFamily(fi *FuncInfo, fam *FamilySpec, st *SpecTables, shard, nshards int, emit func(inst string, obs []*Oblig, c *Ctx)) (int, error) {
	doms := make([][]int64, len(fam.Items))
	names := make([][]string, len(fam.Items))
	for i, it := range fam.Items {
		vs, ns, err := st.domainValues(it.Dom)
		if err != nil {
			return 0, err
		}
		doms[i], names[i] = vs, ns
	}
	labels := map[string]bool{}
	for _, l := range fam.Labels {
		labels[l] = true
	}
	// replacement values
	type repl struct {
		name string
		k    int
		val  *Term
	}
	repls := []repl{{"", 0, nil}}
	if fam.ReplCallee != "" {
		repls = nil
		for k := fam.Lo; k <= fam.Hi; k++ {
			t := Term{S: fmt.Sprintf("(tenth %s)", mkInt(int64(k)).S), Sort: SF64}
			if k == 0 {
				z := f64PosZero
				repls = append(repls, repl{"k=0", 0, &z})
				if fam.ReplPM0 {
					nz := Term{S: "(_ -zero 11 53)", Sort: SF64}
					repls = append(repls, repl{"k=-0", 0, &nz})
				}
				continue
			}
			tt := t
			repls = append(repls, repl{fmt.Sprintf("k=%d", k), k, &tt})
		}
	}
	idx := make([]int, len(fam.Items))
	count := 0
	seq := 0
	for {
		for _, rp := range repls {
			seq++
			if nshards > 1 && seq%nshards != shard {
				continue
			}
			c, p, fr, env := u.enter(fi)
			c.Fam = fam
			c.ReplVal = rp.val
			var parts []string
			if rp.name != "" {
				parts = append(parts, rp.name)
				env.Vars[fam.ReplAs] = SV{T: mkInt(int64(rp.k))}
				c.FamVars = map[string]SV{fam.ReplAs: env.Vars[fam.ReplAs]}
			}
			bad := false
			for i, it := range fam.Items {
				v := env.eval(it.Expr)
				if env.Err != nil {
					return count, fmt.Errorf("%s family %s item %s: %v", fi.Key, fam.Name, it.Expr, env.Err)
				}
				if v.T.C != nil {
					bad = true
					break
				}
				if v.T.Sort == SBool {
					c.Known[v.T.S] = mkBool(doms[i][idx[i]] != 0)
				} else {
					c.Known[v.T.S] = mkInt(doms[i][idx[i]])
				}
				parts = append(parts, fmt.Sprintf("%s=%s", it.Expr, names[i][idx[i]]))
			}
			if bad {
				return count, fmt.Errorf("%s family %s: item is constant", fi.Key, fam.Name)
			}
			c.Instance = strings.Join(parts, " ")
			// guard, then preconditions
			g := env.evalBool(fam.Guard)
			if env.Err != nil {
				return count, fmt.Errorf("%s family %s guard: %v", fi.Key, fam.Name, env.Err)
			}
			p.assume(g)
			if !p.Dead {
				for _, rq := range fi.Contract.Requires {
					t := env.evalBool(rq.Expr)
					if env.Err != nil {
						return count, fmt.Errorf("%s requires: %v", fi.Key, env.Err)
					}
					p.assume(t)
				}
			}
			if !p.Dead {
				u.runFunc(c, p, fr, env, runMode{labels: labels, fam: fam, instance: c.Instance, noFrame: true, noSafety: true})
				if fam.ReplCallee != "" && !c.CutSeen["replace"] {
					c.Obligs = append(c.Obligs, &Oblig{Name: fmt.Sprintf("%s#family:%s:cutpoint-missing", fi.Key, fam.Name), Kind: "cut", Goal: tFalse, Func: fi.Key, Instance: c.Instance, Decls: c, Labels: fam.Labels, Note: "the replaced call " + fam.ReplCallee + " was not reached on any path"})
				}
				if len(c.Untrans) > 0 {
					c.Obligs = append(c.Obligs, &Oblig{Name: fmt.Sprintf("%s#family:%s:translatable", fi.Key, fam.Name), Kind: "translatable", Goal: tFalse, Func: fi.Key, Instance: c.Instance, Decls: c, Labels: fam.Labels, Note: strings.Join(c.Untrans, "; ")})
				}
				count++
				emit(c.Instance, mergeInstance(fi, fam, c), c)
			}
		}
		// next combination
		k := len(idx) - 1
		for k >= 0 {
			idx[k]++
			if idx[k] < len(doms[k]) {
				break
			}
			idx[k] = 0
			k--
		}
		if k < 0 {
			break
		}
	}
	return count, nil
}

// familyExhaustive: guard ==> every item lies in its domain (symbolic), so the ground instances cover the guard.
func (u *Universe) familyExhaustive(fi *FuncInfo, fam *FamilySpec) []*Oblig {
	c, p, _, env := u.enter(fi)
	g := env.evalBool(fam.Guard)
	if env.Err != nil {
		u.problem("%s family %s guard: %v", fi.Key, fam.Name, env.Err)
		return nil
	}
	for _, rq := range fi.Contract.Requires {
		t := env.evalBool(rq.Expr)
		if env.Err == nil {
			p.assume(t)
		}
		env.Err = nil
	}
	p.assume(g)
	var goals []Term
	for _, it := range fam.Items {
		v := env.eval(it.Expr)
		if env.Err != nil {
			u.problem("%s family %s item: %v", fi.Key, fam.Name, env.Err)
			return nil
		}
		if it.Dom == "v3.BOOL" || it.Dom == "v2.BOOL" {
			continue
		}
		goals = append(goals, app(SBool, domainPred(it.Dom), v.T))
	}
	p.oblig("exhaustive", fmt.Sprintf("%s#family:%s:exhaustive", fi.Key, fam.Name), tAnd(goals...), fi.Decl.Pos(), fam.Labels...)
	// every ensures owned by the family must be guarded by the family's guard (so that !guard is vacuous)
	fl := famKey(fam)
	for i, en := range fi.Contract.Ensures {
		if !hasLabel(en.Labels, fl) {
			continue
		}
		ok := en.Expr.Op == "bin" && en.Expr.Name == "==>" && en.Expr.Args[0].String() == fam.Guard.String()
		if !ok {
			u.problem("%s: ensures %d carries family label %v but is not of the form '%s ==> ...'", fi.Key, i, en.Labels, fam.GuardSrc)
		}
	}
	return c.Obligs
}

// mergeInstance folds the obligations of one ground instance into a single one:  AND over parts of (assumes => goal).
func mergeInstance(fi *FuncInfo, fam *FamilySpec, c *Ctx) []*Oblig {
	if len(c.Obligs) <= 1 {
		return c.Obligs
	}
	var conj []Term
	var names []string
	for _, o := range c.Obligs {
		conj = append(conj, tImplies(tAnd(o.Assumes...), o.Goal))
		names = append(names, o.Name)
		if o.Note != "" {
			names = append(names, o.Note)
		}
	}
	m := &Oblig{Name: fmt.Sprintf("%s#family:%s", fi.Key, fam.Name), Kind: "instance", Labels: fam.Labels, Goal: tAnd(conj...), Func: fi.Key, Instance: c.Instance, Decls: c, Where: c.Obligs[0].Where, Note: strings.Join(names, " | ")}
	return []*Oblig{m}
}

// verifyFamilyParallel generates all instances of a family on several goroutines.
func (u *Universe) verifyFamilyParallel(fi *FuncInfo, fam *FamilySpec, st *SpecTables, workers int) ([]*Oblig, int, error) {
	type res struct {
		obs []*Oblig
		n   int
		err error
	}
	out := make([]res, workers)
	var wg sync.WaitGroup
	for w := 0; w < workers; w++ {
		wg.Add(1)
		go func(w int) {
			defer wg.Done()
			var obs []*Oblig
			n, err := u.verifyFamily(fi, fam, st, w, workers, func(inst string, o []*Oblig, c *Ctx) {
				obs = append(obs, o...)
			})
			out[w] = res{obs, n, err}
		}(w)
	}
	wg.Wait()
	var all []*Oblig
	total := 0
	for _, r := range out {
		if r.err != nil {
			return nil, 0, r.err
		}
		all = append(all, r.obs...)
		total += r.n
	}
	return all, total, nil
}

// ---------------------------------------------------------------------------
// family templates: one symbolic execution per family with the split items as parameters; a ground instance is the
// application of the resulting (define-fun ...) to numerals, which the solver expands and evaluates.

type FamTemplate struct {
	Name    string
	Fn      *FuncInfo
	Fam     *FamilySpec
	Params  []Term
	Body    Term
	Ctx     *Ctx
	Doms    [][]int64
	Names   [][]string
	Parts   []string
	HasRepl bool
	Untrans []string
	Missing bool
	// Post: the family's postcondition as a predicate of an observed result value `fpres` (entry state), used to decide
	// whether an output observed on the real code violates the contract. Facts: assumptions at entry (guard, requires).
	Post    Term
	Facts   []Term
	ResSort string
}

func (t *FamTemplate) defText() string {
	var ps []string
	for _, p := range t.Params {
		ps = append(ps, "("+p.S+" "+smtSort(p.Sort)+")")
	}
	return "(define-fun " + t.Name + " (" + strings.Join(ps, " ") + ") Bool " + t.Body.S + ")\n"
}

// postText: (define-fun <name>_post (params..., fpres) Bool post)
func (t *FamTemplate) postText() string {
	var ps []string
	for _, p := range t.Params {
		ps = append(ps, "("+p.S+" "+smtSort(p.Sort)+")")
	}
	ps = append(ps, "(fpres "+smtSort(t.ResSort)+")")
	return "(define-fun " + t.Name + "_post (" + strings.Join(ps, " ") + ") Bool " + t.Post.S + ")\n"
}

func (u *Universe) familyTemplate(fi *FuncInfo, fam *FamilySpec, st *SpecTables) (*FamTemplate, error) {
	t := &FamTemplate{Name: "fam_" + sanitize(fi.Key) + "_" + sanitize(fam.Name), Fn: fi, Fam: fam}
	labels := famKey(fam)
	c, p, fr, env := u.enter(fi)
	c.Fam = fam
	t.Ctx = c
	for i, it := range fam.Items {
		vs, ns, err := st.domainValues(it.Dom)
		if err != nil {
			return nil, err
		}
		t.Doms = append(t.Doms, vs)
		t.Names = append(t.Names, ns)
		v := env.eval(it.Expr)
		if env.Err != nil {
			return nil, fmt.Errorf("%s family %s item %s: %v", fi.Key, fam.Name, it.Expr, env.Err)
		}
		if v.T.C != nil {
			return nil, fmt.Errorf("%s family %s: item %s is constant", fi.Key, fam.Name, it.Expr)
		}
		prm := Term{S: fmt.Sprintf("fp%d", i), Sort: v.T.Sort}
		c.Known[v.T.S] = prm
		t.Params = append(t.Params, prm)
	}
	if fam.ReplCallee != "" {
		t.HasRepl = true
		k := Term{S: "fpk", Sort: SInt}
		rv := Term{S: "fprv", Sort: SF64}
		t.Params = append(t.Params, k, rv)
		c.ReplVal = &rv
		env.Vars[fam.ReplAs] = SV{T: k}
		c.FamVars = map[string]SV{fam.ReplAs: {T: k}}
	}
	g := env.evalBool(fam.Guard)
	if env.Err != nil {
		return nil, fmt.Errorf("%s family %s guard: %v", fi.Key, fam.Name, env.Err)
	}
	p.assume(g)
	for _, rq := range fi.Contract.Requires {
		tt := env.evalBool(rq.Expr)
		if env.Err != nil {
			return nil, fmt.Errorf("%s requires: %v", fi.Key, env.Err)
		}
		p.assume(tt)
	}
	if p.Dead {
		return nil, fmt.Errorf("%s family %s: guard and precondition are contradictory", fi.Key, fam.Name)
	}
	// postcondition as a predicate of an observed result (for replay)
	{
		p0 := p.clone()
		t.Facts = append([]Term(nil), p0.Conds...)
		env2 := &SpecEnv{C: c, P: p0, Old: map[string]Term{}, Vars: map[string]SV{}, Alias: env.Alias}
		for k, v := range env.Vars {
			env2.Vars[k] = v
		}
		if fi.Sig.Results().Len() == 1 {
			rt := fi.Sig.Results().At(0).Type()
			t.ResSort = u.sortOfType(rt)
			rv := SV{T: Term{S: "fpres", Sort: t.ResSort}, GoT: rt}
			var conj []Term
			env2.Vars["result"] = rv
			env2.Vars["res0"] = rv
			for _, en := range fi.Contract.Ensures {
				if hasLabel(en.Labels, labels) {
					g := env2.evalBool(en.Expr)
					if env2.Err == nil {
						conj = append(conj, g)
					}
					env2.Err = nil
				}
			}
			if fam.StopSpec != nil {
				// the stop assertion speaks about the cut value, which equals the final result for the neutral completion used
				// in replays; a family whose paths may return before the cut states its own replay judgement (`judge EXPR`)
				env2.Vars["cutval"] = rv
				spec := fam.StopSpec
				if fam.Judge != nil {
					spec = fam.Judge
				}
				g := env2.evalBool(spec)
				if env2.Err == nil {
					conj = []Term{g}
				}
				env2.Err = nil
			}
			t.Post = tAnd(conj...)
		}
	}
	u.runFunc(c, p, fr, env, runMode{labels: labels, fam: fam, noFrame: true, noSafety: true})
	if fam.ReplCallee != "" && !c.CutSeen["replace"] {
		t.Missing = true
	}
	if fam.StopSpec != nil && !c.CutSeen["stop"] {
		t.Missing = true
	}
	t.Untrans = c.Untrans
	var conj []Term
	for _, o := range c.Obligs {
		conj = append(conj, tImplies(tAnd(o.Assumes...), o.Goal))
		t.Parts = append(t.Parts, o.Name)
	}
	t.Body = tAnd(conj...)
	if len(conj) == 0 {
		t.Missing = true
	}
	return t, nil
}

// instances enumerates the ground instances of a template as obligations "(tmpl c1 c2 ...)".
func (t *FamTemplate) instances() []*Oblig {
	fam := t.Fam
	type repl struct {
		name string
		k    int
		rv   string
	}
	repls := []repl{{}}
	if t.HasRepl {
		repls = nil
		for k := fam.Lo; k <= fam.Hi; k++ {
			if k == 0 {
				repls = append(repls, repl{"k=0", 0, "(_ +zero 11 53)"})
				if fam.ReplPM0 {
					repls = append(repls, repl{"k=-0", 0, "(_ -zero 11 53)"})
				}
				continue
			}
			repls = append(repls, repl{fmt.Sprintf("k=%d", k), k, "(tenth " + mkInt(int64(k)).S + ")"})
		}
	}
	var out []*Oblig
	idx := make([]int, len(t.Doms))
	for {
		var args, desc []string
		for i := range t.Doms {
			v := t.Doms[i][idx[i]]
			if t.Params[i].Sort == SBool {
				args = append(args, mkBool(v != 0).S)
			} else {
				args = append(args, mkInt(v).S)
			}
			desc = append(desc, fmt.Sprintf("%s=%s", fam.Items[i].Expr, t.Names[i][idx[i]]))
		}
		for _, rp := range repls {
			a, d := args, desc
			if t.HasRepl {
				a = append(append([]string(nil), args...), mkInt(int64(rp.k)).S, rp.rv)
				d = append(append([]string(nil), desc...), rp.name)
			}
			out = append(out, &Oblig{Name: fmt.Sprintf("%s#family:%s", t.Fn.Key, fam.Name), Kind: "instance", Labels: fam.Labels, Func: t.Fn.Key,
				Goal: Term{S: "(" + t.Name + " " + strings.Join(a, " ") + ")", Sort: SBool}, Instance: strings.Join(d, " "), Decls: t.Ctx, Template: t, Args: a})
		}
		k := len(idx) - 1
		for k >= 0 {
			idx[k]++
			if idx[k] < len(t.Doms[k]) {
				break
			}
			idx[k] = 0
			k--
		}
		if k < 0 {
			break
		}
	}
	if len(t.Params) == 0 {
		// no parameters: the body itself is the single instance
		out[0].Goal = t.Body
		out[0].Template = nil
	}
	return out
}

// lemmaTemplate: a lemma with "over x in DOM, ..." is a ground family on the specification side.
func (u *Universe) lemmaTemplate(lm *Lemma, st *SpecTables) (*FamTemplate, error) {
	fi := &FuncInfo{Key: "lemma:" + lm.Name}
	c := newCtx(u, fi)
	p := &Path{C: c, Heap: map[string]Term{}, CallOrd: map[string]int{}, Facts: map[string]Term{}, CutSeen: map[string]bool{}}
	env := &SpecEnv{C: c, P: p, Old: map[string]Term{}, Vars: map[string]SV{}, Alias: lm.Alias}
	fam := &FamilySpec{Name: lm.Name, Labels: lm.Labels}
	t := &FamTemplate{Name: "lem_" + sanitize(lm.Name), Fn: fi, Fam: fam, Ctx: c}
	for i, v := range lm.Vars {
		vs, ns, err := st.domainValues(lm.Doms[i])
		if err != nil {
			return nil, err
		}
		t.Doms = append(t.Doms, vs)
		t.Names = append(t.Names, ns)
		prm := Term{S: fmt.Sprintf("fp%d", i), Sort: SInt}
		t.Params = append(t.Params, prm)
		env.Vars[v] = SV{T: prm}
		fam.Items = append(fam.Items, FamItem{Expr: &Node{Op: "ident", Name: v}, Dom: lm.Doms[i]})
	}
	g := env.evalBool(lm.Expr)
	if env.Err != nil {
		return nil, fmt.Errorf("lemma %s: %v", lm.Name, env.Err)
	}
	t.Body = g
	t.Parts = []string{"lemma:" + lm.Name}
	return t, nil
}

// verifyScenario: a symbolic run with some parameters bound to structured terms over ghost variables
// (e.g. the canonical vector string of symbolic valid codes); checks the ensures carrying the scenario's key label.
func (u *Universe) verifyScenario(fi *FuncInfo, sc *ScenarioSpec) *FuncResult {
	res := &FuncResult{Fn: fi, Families: map[string]int{}}
	c, p, fr, env := u.enter(fi)
	c.ForceInline = map[string]bool{}
	for _, k := range sc.Inline {
		c.ForceInline[k] = true
	}
	for _, g := range sc.Ghosts {
		srt := specSortOfTypeName(g.Type)
		name := "gh_" + sanitize(g.Name)
		c.declare(name, srt)
		env.Vars[g.Name] = SV{T: Term{S: name, Sort: srt}}
	}
	ct := fi.Contract
	if r := fi.Sig.Recv(); r != nil && sc.Recv != "" {
		switch sc.Recv {
		case "nil":
			p.Vars[r] = mkInt(0)
		case "new":
			tn := ""
			if pt, ok := r.Type().(*types.Pointer); ok {
				if nt, ok := pt.Elem().(*types.Named); ok {
					tn = nt.Obj().Name()
				}
			}
			cons := u.Funcs[aliasOf(fi.Obj.Pkg())+".New"+tn]
			if cons == nil {
				u.problem("%s scenario %s: no constructor New%s", fi.Key, sc.Name, tn)
				return res
			}
			pvs := fr.callInline(p, &ast.CallExpr{Fun: ast.NewIdent("New" + tn)}, cons, nil, nil)
			if len(pvs) != 1 {
				u.problem("%s scenario %s: constructor has %d paths", fi.Key, sc.Name, len(pvs))
				return res
			}
			p = pvs[0].P
			p.Vars[r] = pvs[0].V
		}
		sv := valueToSV(p.Vars[r], r.Type())
		env.P = p
		if ct.Recv != "" {
			env.Vars[ct.Recv] = sv
		}
		env.Vars[r.Name()] = sv
	}
	for pname, e := range sc.Binds {
		// option lists: noopts() / optlist(l) / optlist2(l1, l2) / optlist3(..) / optlist4(..) build the real closures of
		// WithOptionsLanguage, one per argument
		if e.Op == "call" && (e.Name == "noopts" || strings.HasPrefix(e.Name, "optlist")) {
			vv := &VariadicVal{}
			wol := u.Funcs[aliasOf(fi.Obj.Pkg())+".WithOptionsLanguage"]
			for _, a := range e.Args {
				av := env.eval(a)
				if env.Err != nil || wol == nil {
					u.problem("%s scenario %s: option list: %v", fi.Key, sc.Name, env.Err)
					return res
				}
				pvs := fr.callInline(p, &ast.CallExpr{Fun: ast.NewIdent("WithOptionsLanguage")}, wol, nil, []Value{av.T})
				if len(pvs) != 1 {
					u.problem("%s scenario %s: WithOptionsLanguage has %d paths", fi.Key, sc.Name, len(pvs))
					return res
				}
				p = pvs[0].P
				env.P = p
				vv.Elems = append(vv.Elems, pvs[0].V)
			}
			for i := 0; i < fi.Sig.Params().Len(); i++ {
				prm := fi.Sig.Params().At(i)
				if prm.Name() == pname {
					p.Vars[prm] = vv
				}
			}
			delete(env.Vars, pname)
			continue
		}
		v := env.eval(e)
		if env.Err != nil {
			u.problem("%s scenario %s bind %s: %v", fi.Key, sc.Name, pname, env.Err)
			return res
		}
		bound := false
		for i := 0; i < fi.Sig.Params().Len(); i++ {
			prm := fi.Sig.Params().At(i)
			cn := ""
			if i < len(ct.Params) {
				cn = ct.Params[i]
			}
			if prm.Name() == pname || cn == pname {
				p.Vars[prm] = v.T
				env.Vars[pname] = SV{T: v.T, GoT: prm.Type()}
				env.Vars[prm.Name()] = SV{T: v.T, GoT: prm.Type()}
				bound = true
			}
		}
		if !bound {
			u.problem("%s scenario %s: no parameter %s", fi.Key, sc.Name, pname)
		}
	}
	for i, rq := range ct.Requires {
		t := env.evalBool(rq.Expr)
		if env.Err != nil {
			u.problem("%s: requires %d: %v", fi.Key, i, env.Err)
			env.Err = nil
			continue
		}
		p.assume(t)
	}
	if sc.Assume != nil {
		t := env.evalBool(sc.Assume)
		if env.Err != nil {
			u.problem("%s scenario %s assume: %v", fi.Key, sc.Name, env.Err)
			return res
		}
		p.assume(t)
	}
	cov := &Oblig{Name: fi.Key + "#scenario:" + sc.Name + ":cover", Kind: "cover", Assumes: append([]Term(nil), p.Conds...), Goal: tFalse, Func: fi.Key, Decls: c, Labels: []string{"cover"}}
	c.Obligs = append(c.Obligs, cov)
	lbl := map[string]bool{}
	if len(sc.Labels) > 0 {
		lbl[sc.Labels[0]] = true
	}
	c.Instance = "scenario " + sc.Name
	res.Paths = u.runFunc(c, p, fr, env, runMode{labels: lbl, noFrame: true, noSafety: true})
	res.Obligs = c.Obligs
	res.Untrans = c.Untrans
	res.Axioms = c.AxiomsUsed
	return res
}

// ---------------------------------------------------------------------------
// function summaries: for a pure function marked `summary`, its result as an if-then-else term over its parameters
// (from the symbolic execution of the real body) becomes the prelude function fn_<key>, usable in lemmas about the
// function as a whole (injectivity of name tables, fallback rules, relations between two functions).

func summaryName(key string) string { return "fn_" + sanitize(key) }

func (u *Universe) buildSummaries() string {
	var sb strings.Builder
	keys := sortedKeys(u.Contracts)
	for _, k := range keys {
		ct := u.Contracts[k]
		fi := u.Funcs[k]
		if !ct.Summary || fi == nil || fi.Decl.Body == nil {
			continue
		}
		c, p, fr, _ := u.enter(fi)
		c.NoSafety = true
		live := fr.execBlock([]*Path{p}, fi.Decl.Body.List)
		for _, q := range live {
			if !q.Dead {
				fr.finish(q, nil)
			}
		}
		if len(c.Untrans) > 0 {
			u.problem("summary of %s: %s", k, strings.Join(c.Untrans, "; "))
			continue
		}
		var params []string
		var psorts []string
		add := func(v *types.Var) {
			params = append(params, "in_"+sanitize(v.Name()))
			psorts = append(psorts, u.sortOfType(v.Type()))
		}
		if r := fi.Sig.Recv(); r != nil {
			add(r)
		}
		for i := 0; i < fi.Sig.Params().Len(); i++ {
			add(fi.Sig.Params().At(i))
		}
		rsort := u.sortOfType(fi.Sig.Results().At(0).Type())
		body := zeroTerm(rsort)
		ok := true
		for i := len(*fr.rets) - 1; i >= 0; i-- {
			q := (*fr.rets)[i]
			if q.Dead || len(q.Ret) != 1 {
				continue
			}
			rt, isT := q.Ret[0].(Term)
			if !isT {
				ok = false
				break
			}
			body = tIte(tAnd(q.Conds...), rt, body)
		}
		for _, d := range c.DeclOrder {
			isParam := false
			for _, pn := range params {
				if pn == d {
					isParam = true
				}
			}
			if !isParam && strings.Contains(body.S, d) {
				ok = false
			}
		}
		if !ok {
			u.problem("summary of %s: result is not a term of the parameters", k)
			continue
		}
		var ps []string
		for i := range params {
			ps = append(ps, "("+params[i]+" "+smtSort(psorts[i])+")")
		}
		name := summaryName(k)
		fmt.Fprintf(&sb, "(define-fun %s (%s) %s %s)\n", name, strings.Join(ps, " "), smtSort(rsort), body.S)
		u.Specs[name] = &SpecSig{Name: name, Params: psorts, Result: rsort}
	}
	return sb.String()
}
