package main

// C20 probe, used as replay for refuted table obligations: for every metric of both versions and every value of the
// specification's table (spec/tables.json): Get<M>(code) is the constant of that name, <const>.String() is the code, and,
// where Value() takes no argument, Value() is the specification's weight; unknown codes parse to the unknown/invalid
// value. Used only to confirm refutations (and as end-to-end cross-check in the thorough tier).

import (
	"fmt"
	"strings"
	"sync"
)

var tablesProbeCache sync.Map

func tablesProbe(u *Universe, st *SpecTables, repo string) (string, bool) {
	if v, ok := tablesProbeCache.Load(repo); ok {
		r := v.([2]interface{})
		return r[0].(string), r[1].(bool)
	}
	head := "table probe on the real code (every metric of v2 and v3 x every value of the specification's tables: Get(code) = constant, constant.String() = code, Value() = weight where it takes no argument; unknown codes give the unknown value):\n"
	hit := false
	var rep strings.Builder
	rep.WriteString(head)
	for _, fam := range []struct {
		dir string
		f   *SpecFamily
	}{{"v3/metric", st.V3}, {"v2/metric", st.V2}} {
		var body strings.Builder
		for _, m := range fam.f.Metrics {
			if m.Get == "" {
				continue
			}
			fi := u.Funcs[fam.f.Alias+"."+m.Get]
			if fi == nil {
				continue
			}
			noArgValue := false
			if vf := u.Funcs[fam.f.Alias+"."+m.Type+".Value"]; vf != nil && vf.Sig.Params().Len() == 0 {
				noArgValue = true
			}
			for _, v := range m.Values {
				fmt.Fprintf(&body, "\tif g := %s(%q); g != %s {\n\t\tfmt.Printf(\"TABLES-HIT %s(%%q) = %%d, the specification's value for this code is %s (%%d)\\n\", %q, g, %s)\n\t\treturn\n\t}\n", m.Get, v.Code, v.Const, m.Get, v.Const, v.Code, v.Const)
				fmt.Fprintf(&body, "\tif s := %s.String(); s != %q {\n\t\tfmt.Printf(\"TABLES-HIT %s.String() = %%q, the specification's code is %%q\\n\", s, %q)\n\t\treturn\n\t}\n", v.Const, v.Code, v.Const, v.Code)
				if noArgValue && v.W != "" {
					fmt.Fprintf(&body, "\tif w := %s.Value(); w != %s {\n\t\tfmt.Printf(\"TABLES-HIT %s.Value() = %%v, the specification's weight is %s\\n\", w)\n\t\treturn\n\t}\n", v.Const, v.W, v.Const, v.W)
				}
			}
			if m.Unknown != "" {
				fmt.Fprintf(&body, "\tfor _, bad := range []string{\"\", \"?\", \"Q\", \"nd\", \"NDX\"} {\n\t\tif g := %s(bad); g != %s {\n\t\t\tfmt.Printf(\"TABLES-HIT %s(%%q) = %%d, an unknown code must give %s\\n\", bad, g)\n\t\t\treturn\n\t\t}\n\t}\n", m.Get, m.Unknown, m.Get, m.Unknown)
			}
		}
		src := "package metric\n\nimport (\n\t\"fmt\"\n\t\"testing\"\n)\n\nfunc TestVerifTables(t *testing.T) {\n" + body.String() + "\tfmt.Println(\"TABLES-NONE all table entries agree\")\n}\n"
		out, err := runOverlayTest(repo, fam.dir, src, "TestVerifTables")
		switch {
		case strings.Contains(out, "TABLES-HIT"):
			i := strings.Index(out, "TABLES-HIT")
			j := strings.Index(out[i:], "\n")
			rep.WriteString(fam.dir + ": " + out[i:i+j] + "\n=> CONFIRMED\n")
			hit = true
		case strings.Contains(out, "TABLES-NONE"):
			rep.WriteString(fam.dir + ": no difference observed in this probe\n")
		default:
			rep.WriteString(fam.dir + ": probe did not run to completion (" + errString(err) + "): " + tail(out, 600) + "\n")
		}
	}
	tablesProbeCache.Store(repo, [2]interface{}{rep.String(), hit})
	return rep.String(), hit
}
