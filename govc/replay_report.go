package main

// C17 probe, used as replay for refuted report-constructor obligations: for sample vectors and languages every report
// field is compared with the name function of the metric it is named after (called directly), the same level's
// Encode/Score/Severity, and the embedded reports with the embedded metrics. Generated from spec/tables.json.

import (
	"fmt"
	"strings"
	"sync"
)

func reportProbeSrc(st *SpecTables) string {
	var sb strings.Builder
	sb.WriteString(`package report

import (
	"fmt"
	"strconv"
	"testing"

	"github.com/goark/go-cvss/v3/metric"
	"github.com/goark/go-cvss/v3/report/names"
	"golang.org/x/text/language"
)

type vrCheck struct{ field, got, want string }

func vrBaseChecks(prefix string, r *BaseReport, b *metric.Base, l language.Tag) []vrCheck {
	enc, _ := b.Encode()
	cs := []vrCheck{
		{prefix + "Version", r.Version, b.Ver.String()}, {prefix + "Vector", r.Vector, enc},
		{prefix + "BaseMetrics", r.BaseMetrics, names.BaseMetrics(l)}, {prefix + "BaseMetricValue", r.BaseMetricValue, names.BaseMetricsValueOf(l)},
		{prefix + "BaseScore", r.BaseScore, strconv.FormatFloat(b.Score(), 'f', -1, 64)},
		{prefix + "SeverityName", r.SeverityName, names.Severity(l)}, {prefix + "SeverityValue", r.SeverityValue, names.SeverityValueOf(b.Severity(), l)},
`)
	emit := func(level, rep, obj string) {
		for _, m := range st.V3.Metrics {
			if m.Level != level {
				continue
			}
			fmt.Fprintf(&sb, "\t\t{prefix + %q, %s.%sName, names.%s(l)}, {prefix + %q, %s.%sValue, names.%sValueOf(%s.%s, l)},\n", m.Name+"Name", rep, m.Name, m.Type, m.Name+"Value", rep, m.Name, m.Name, obj, m.Name)
		}
	}
	emit("base", "r", "b")
	sb.WriteString(`	}
	return cs
}

func vrTemporalChecks(prefix string, r *TemporalReport, t *metric.Temporal, l language.Tag) []vrCheck {
	enc, _ := t.Encode()
	cs := []vrCheck{
		{prefix + "Vector", r.Vector, enc},
		{prefix + "TemporalMetrics", r.TemporalMetrics, names.TemporalMetrics(l)}, {prefix + "TemporalMetricValue", r.TemporalMetricValue, names.TemporalMetricsValueOf(l)},
		{prefix + "TemporalScore", r.TemporalScore, strconv.FormatFloat(t.Score(), 'f', -1, 64)},
		{prefix + "SeverityName", r.SeverityName, names.Severity(l)}, {prefix + "SeverityValue", r.SeverityValue, names.SeverityValueOf(t.Severity(), l)},
`)
	emit("temporal", "r", "t")
	sb.WriteString(`	}
	if r.BaseReport == nil {
		return append(cs, vrCheck{prefix + "BaseReport", "nil", "embedded base report"})
	}
	return append(cs, vrBaseChecks(prefix+"BaseReport.", r.BaseReport, t.BaseMetrics(), l)...)
}

func vrEnvChecks(r *EnvironmentalReport, e *metric.Environmental, l language.Tag) []vrCheck {
	enc, _ := e.Encode()
	cs := []vrCheck{
		{"Vector", r.Vector, enc},
		{"EnvironmentalMetrics", r.EnvironmentalMetrics, names.EnvironmentalMetrics(l)}, {"EnvironmentalMetricValue", r.EnvironmentalMetricValue, names.EnvironmentalMetricsValueOf(l)},
		{"EnvironmentalScore", r.EnvironmentalScore, strconv.FormatFloat(e.Score(), 'f', -1, 64)},
		{"SeverityName", r.SeverityName, names.Severity(l)}, {"SeverityValue", r.SeverityValue, names.SeverityValueOf(e.Severity(), l)},
`)
	// environmental report fields have no prefix variable: emit with empty prefix
	for _, m := range st.V3.Metrics {
		if m.Level != "environmental" {
			continue
		}
		fmt.Fprintf(&sb, "\t\t{%q, r.%sName, names.%s(l)}, {%q, r.%sValue, names.%sValueOf(e.%s, l)},\n", m.Name+"Name", m.Name, m.Type, m.Name+"Value", m.Name, m.Name, m.Name)
	}
	sb.WriteString(`	}
	if r.TemporalReport == nil {
		return append(cs, vrCheck{"TemporalReport", "nil", "embedded temporal report"})
	}
	return append(cs, vrTemporalChecks("TemporalReport.", r.TemporalReport, e.TemporalMetrics(), l)...)
}

func TestVerifReport(t *testing.T) {
	vecs := []string{
		"CVSS:3.1/AV:N/AC:L/PR:L/UI:N/S:C/C:H/I:L/A:N/E:F/RL:W/RC:R/CR:H/IR:L/AR:M/MAV:P/MAC:H/MPR:H/MUI:R/MS:U/MC:N/MI:N/MA:N",
		"CVSS:3.0/AV:P/AC:H/PR:H/UI:R/S:U/C:L/I:N/A:H/E:U/RL:O/RC:U",
		"CVSS:3.1/AV:N/AC:L/PR:N/UI:N/S:U/C:H/I:H/A:H/CR:L/MAV:L/MS:C",
		"CVSS:3.1/AV:A/AC:L/PR:N/UI:R/S:C/C:H/I:H/A:H",
		"CVSS:3.1/AV:N/AC:H/PR:N/UI:N/S:C/C:H/I:H/A:H",      // base 9.0
		"CVSS:3.1/AV:N/AC:L/PR:N/UI:N/S:U/C:H/I:H/A:H/E:U",  // temporal 9.0
		"CVSS:3.1/AV:L/AC:L/PR:N/UI:N/S:U/C:L/I:N/A:N",      // base 4.0
		"CVSS:3.1/AV:N/AC:L/PR:N/UI:N/S:C/C:H/I:H/A:H",      // base 10
		"CVSS:3.0/AV:N/AC:L/PR:N/UI:N/S:U/C:N/I:N/A:N/MC:H", // base 0, environmental above 0
		"CVSS:3.1/AV:N/AC:L/PR:L/UI:R/S:U/C:H/I:H/A:H/E:H/RL:U/RC:C/CR:M/IR:H/AR:L/MAV:A/MAC:H/MPR:N/MUI:N/MS:C/MC:N/MI:L/MA:H",
		"CVSS:3.0/AV:P/AC:H/PR:H/UI:N/S:C/C:L/I:L/A:L/E:P/RL:T/RC:R/MAV:L/MAC:L/MPR:L/MUI:R/MS:U/MC:H/MI:N/MA:L",
	}
	type lc struct {
		tag  language.Tag
		opts []ReportOptionsFunc
		name string
	}
	langs := []lc{{language.English, nil, "default"}, {language.English, []ReportOptionsFunc{WithOptionsLanguage(language.English)}, "en"},
		{language.Japanese, []ReportOptionsFunc{WithOptionsLanguage(language.Japanese)}, "ja"}, {language.French, []ReportOptionsFunc{WithOptionsLanguage(language.French)}, "fr"},
		// several options: applied in order, the last one wins
		{language.Japanese, []ReportOptionsFunc{WithOptionsLanguage(language.English), WithOptionsLanguage(language.Japanese)}, "en,ja"},
		{language.English, []ReportOptionsFunc{WithOptionsLanguage(language.Japanese), WithOptionsLanguage(language.English)}, "ja,en"},
		{language.Japanese, []ReportOptionsFunc{WithOptionsLanguage(language.English), WithOptionsLanguage(language.French), WithOptionsLanguage(language.Japanese)}, "en,fr,ja"},
		{language.English, []ReportOptionsFunc{WithOptionsLanguage(language.Japanese), WithOptionsLanguage(language.French), WithOptionsLanguage(language.Japanese), WithOptionsLanguage(language.English)}, "ja,fr,ja,en"}}
	n := 0
	for _, v := range vecs {
		em, err := metric.NewEnvironmental().Decode(v)
		if err != nil {
			t.Fatal(err)
		}
		for _, l := range langs {
			var all []vrCheck
			all = append(all, vrEnvChecks(NewEnvironmental(em, l.opts...), em, l.tag)...)
			for _, c := range vrTemporalChecks("", NewTemporal(em.TemporalMetrics(), l.opts...), em.TemporalMetrics(), l.tag) {
				c.field = "(TemporalReport) " + c.field
				all = append(all, c)
			}
			for _, c := range vrBaseChecks("", NewBase(em.BaseMetrics(), l.opts...), em.BaseMetrics(), l.tag) {
				c.field = "(BaseReport) " + c.field
				all = append(all, c)
			}
			for _, c := range all {
				n++
				if c.got != c.want {
					fmt.Printf("REPORT-HIT vector %q language %s: field %s = %q, want %q\n", v, l.name, c.field, c.got, c.want)
					return
				}
			}
		}
	}
	fmt.Printf("REPORT-NONE %d report fields agree\n", n)
}
`)
	return sb.String()
}

var reportProbeCache sync.Map

func reportProbe(st *SpecTables, repo string) (string, bool) {
	if v, ok := reportProbeCache.Load(repo); ok {
		r := v.([2]interface{})
		return r[0].(string), r[1].(bool)
	}
	out, err := runOverlayTest(repo, "v3/report", reportProbeSrc(st), "TestVerifReport")
	hit := strings.Contains(out, "REPORT-HIT")
	rep := "report probe on the real code (11 vectors (incl. scores 0, 4.0, 9.0, 10 on the band boundaries) x 8 language settings (incl. option lists of 2, 3 and 4 options, the last one wins) x every field of the three report levels and their embedded reports; oracle: the name function of the metric the field is named after, the same level's Encode/Score/Severity):\n"
	switch {
	case hit:
		i := strings.Index(out, "REPORT-HIT")
		j := strings.Index(out[i:], "\n")
		rep += out[i:i+j] + "\n=> CONFIRMED\n"
	case strings.Contains(out, "REPORT-NONE"):
		i := strings.Index(out, "REPORT-NONE")
		j := strings.Index(out[i:], "\n")
		rep += out[i:i+j] + "\n"
	default:
		rep += "probe did not run to completion (" + errString(err) + "): " + tail(out, 1200) + "\n"
	}
	reportProbeCache.Store(repo, [2]interface{}{rep, hit})
	return rep, hit
}
