package main

// Replay recipes: how a refuted ground instance of a family is turned into an input of the real code, and how the
// observed output is judged (by the solver, against the family's postcondition).

import (
	"bytes"
	"context"
	"encoding/json"
	"fmt"
	"os"
	"os/exec"
	"strings"
	"time"
)

type instView struct {
	fields map[string]int    // Go field name -> value
	codes  map[string]string // field name -> specification code
	k      int
	hasK   bool
	negz   bool
}

func viewInstance(o *Oblig) *instView {
	t := o.Template
	v := &instView{fields: map[string]int{}, codes: map[string]string{}}
	for i, it := range t.Fam.Items {
		name := ""
		switch {
		case it.Expr.Op == "field":
			name = it.Expr.Name
		case it.Expr.Op == "call" && len(it.Expr.Args) == 2 && it.Expr.Args[1].Op == "field":
			name = it.Expr.Args[1].Name
		}
		if name == "" || i >= len(o.Args) {
			continue
		}
		var val int64
		fmt.Sscanf(strings.Trim(o.Args[i], "()- "), "%d", &val)
		if strings.HasPrefix(o.Args[i], "(-") {
			val = -val
		}
		v.fields[name] = int(val)
		for j, dv := range t.Doms[i] {
			if dv == val {
				v.codes[name] = t.Names[i][j]
			}
		}
	}
	if t.HasRepl && len(o.Args) >= 2 {
		ks := o.Args[len(o.Args)-2]
		var k int
		fmt.Sscanf(strings.Trim(ks, "()- "), "%d", &k)
		if strings.HasPrefix(ks, "(-") {
			k = -k
		}
		v.k, v.hasK = k, true
		v.negz = strings.Contains(o.Args[len(o.Args)-1], "-zero")
	}
	return v
}

func replayInstance(u *Universe, st *SpecTables, d *Discharger, o *Oblig, repo string, id string) (string, bool) {
	if o.Template == nil {
		rep, ok := replaySymbolic(u, st, d, o, repo)
		if ok {
			return rep, ok
		}
		// decoder-level obligations: bounded witness search from the public entry points
		if o.Decls != nil && o.Decls.Fn != nil && o.Decls.Fn.Pkg != nil {
			pd := pkgDirOf(o.Decls.Fn)
			if pd == "v3/metric" || pd == "v2/metric" {
				n := o.Decls.Fn.Obj.Name()
				if n == "Decode" || n == "decodeOne" || n == "GetVersion" || n == "get" || strings.HasPrefix(n, "Get") || n == "Encode" || n == "String" || n == "IsEmpty" {
					r2, ok2 := decodeWitnessFor(st, repo, pd, id)
					return rep + r2, ok2
				}
			}
		}
		return rep, ok
	}
	pkg, req, observe := buildRequest(o)
	if req == nil {
		return "", false
	}
	ans, raw, err := runHarness(repo, pkg, []map[string]interface{}{req})
	if err != nil || len(ans) != 1 {
		rb, _ := json.Marshal(req)
		return fmt.Sprintf("harness request: %s\nharness failed: %v\n%s\n", rb, err, tail(raw, 1500)), false
	}
	rep, ok, _ := finishReplay(d, o, pkg, req, observe, ans[0])
	return rep, ok
}

func buildRequest(o *Oblig) (string, map[string]interface{}, string) {
	t := o.Template
	v := viewInstance(o)
	key := t.Fn.Key + "/" + t.Fam.Name
	var req map[string]interface{}
	pkg := "v3/metric"
	observe := "env"
	c := v.codes
	v2base := func() string {
		return "AV:" + c["AV"] + "/AC:" + c["AC"] + "/Au:" + c["Au"] + "/C:" + c["C"] + "/I:" + c["I"] + "/A:" + c["A"]
	}
	tmp := func() string { return "/E:" + c["E"] + "/RL:" + c["RL"] + "/RC:" + c["RC"] }
	switch key {
	case "v3m.Base.Score/base":
		req = map[string]interface{}{"op": "fields", "set": v.fields}
		observe = "base"
	case "v3m.Temporal.Score/temporal":
		req = map[string]interface{}{"op": "find_base", "k": v.k, "set": v.fields}
		observe = "temporal"
	case "v3m.Environmental.Score/inner":
		req = map[string]interface{}{"op": "fields", "set": v.fields}
	case "v3m.Environmental.Score/outer":
		req = map[string]interface{}{"op": "find_env_inner", "k": v.k, "set": v.fields}
	case "v2m.Base.Score/base":
		pkg = "v2/metric"
		req = map[string]interface{}{"op": "decode", "vector": v2base()}
		observe = "base"
	case "v2m.Temporal.Score/temporal":
		pkg = "v2/metric"
		req = map[string]interface{}{"op": "find", "stage": "base", "k": v.k, "negzero": v.negz, "suffix": tmp()}
		observe = "temporal"
	case "v2m.Temporal.Score/empty":
		pkg = "v2/metric"
		req = map[string]interface{}{"op": "find", "stage": "base", "k": v.k, "negzero": v.negz, "suffix": ""}
		observe = "temporal"
	case "v2m.Environmental.Score/adjbase":
		pkg = "v2/metric"
		req = map[string]interface{}{"op": "decode", "vector": v2base() + "/CDP:ND/TD:ND/CR:" + c["CR"] + "/IR:" + c["IR"] + "/AR:" + c["AR"]}
	case "v2m.Environmental.Score/adjtemp":
		pkg = "v2/metric"
		req = map[string]interface{}{"op": "find", "stage": "adjbase", "k": v.k, "negzero": v.negz, "suffix": tmp() + "/CDP:ND/TD:ND{REQ}"}
	case "v2m.Environmental.Score/final":
		pkg = "v2/metric"
		req = map[string]interface{}{"op": "find", "stage": "adjtemp", "k": v.k, "negzero": v.negz, "suffix": "/CDP:" + c["CDP"] + "/TD:" + c["TD"] + "{REQ}"}
	case "v2m.Environmental.Score/final0":
		pkg = "v2/metric"
		req = map[string]interface{}{"op": "find", "stage": "adjbase", "k": v.k, "negzero": v.negz, "suffix": "/CDP:" + c["CDP"] + "/TD:" + c["TD"] + "{REQ}"}
	case "v2m.Environmental.Score/none":
		pkg = "v2/metric"
		req = map[string]interface{}{"op": "find", "stage": "base", "k": v.k, "negzero": v.negz, "suffix": tmp()}
	case "v2m.Environmental.Score/none0":
		pkg = "v2/metric"
		req = map[string]interface{}{"op": "find", "stage": "base", "k": v.k, "negzero": v.negz, "suffix": ""}
	default:
		return "", nil, ""
	}
	return pkg, req, observe
}

// finishReplay judges the answer of the real code; returns report, confirmed, and a one-line description.
func finishReplay(d *Discharger, o *Oblig, pkg string, req map[string]interface{}, observe string, a HarnessAnswer) (string, bool, string) {
	t := o.Template
	rb, _ := json.Marshal(req)
	var sb strings.Builder
	fmt.Fprintf(&sb, "harness request (package %s, in-package test injected with go test -overlay): %s\n", pkg, rb)
	ab, _ := json.Marshal(a)
	fmt.Fprintf(&sb, "real code answered: %s\n", ab)
	if a.Panic != "" {
		fmt.Fprintf(&sb, "the real code PANICKED: %s\n", a.Panic)
		return sb.String(), true, "panic: " + a.Panic
	}
	if !a.Ok {
		fmt.Fprintf(&sb, "no input reaching this instance was found (%s): the instance is not attainable by a vector, the refutation is reported without failing input\n", a.Note)
		return sb.String(), false, "unattainable"
	}
	var bits uint64
	var val float64
	switch observe {
	case "base":
		bits, val = a.BaseBits, a.Base
	case "temporal":
		bits, val = a.TempBits, a.Temporal
	default:
		bits, val = a.EnvBits, a.Env
	}
	input := a.Vector
	if input == "" {
		input = a.Enc
	}
	desc := fmt.Sprintf("vector=%s %s_score=%v", input, observe, val)
	verdict, out := judgeObserved(d, t, o.Args, fpLit(bits))
	fmt.Fprintf(&sb, "observed %s score bits %#x; solver verdict on  facts /\\ not post(instance, observed): %s\n", observe, bits, verdict)
	switch verdict {
	case "sat":
		sb.WriteString("=> the value returned by the real code violates the postcondition: CONFIRMED\n")
		if a.Vector != "" {
			fmt.Fprintf(&sb, "failing input: %s\n", a.Vector)
		} else if a.Enc != "" {
			fmt.Fprintf(&sb, "failing input (encoding of the object): %s\n", a.Enc)
		}
		return sb.String(), true, desc + " violates-postcondition"
	case "unsat":
		sb.WriteString("=> the value returned by the real code satisfies the postcondition for this input; the refuted obligation does not replay\n")
	default:
		sb.WriteString(tail(out, 800))
	}
	return sb.String(), false, desc
}

func tail(s string, n int) string {
	if len(s) > n {
		return s[len(s)-n:]
	}
	return s
}

// judgeObserved asks the solver whether an observed result violates the family's postcondition for the instance.
func judgeObserved(d *Discharger, t *FamTemplate, args []string, observed string) (string, string) {
	var sb strings.Builder
	sb.WriteString(d.Prelude)
	sb.WriteString(declsText(t.Ctx))
	sb.WriteString(t.postText())
	// entry facts with the instance's parameter values
	var ps []string
	for _, p := range t.Params {
		ps = append(ps, "("+p.S+" "+smtSort(p.Sort)+")")
	}
	facts := tAnd(t.Facts...)
	fmt.Fprintf(&sb, "(define-fun %s_facts (%s) Bool %s)\n", t.Name, strings.Join(ps, " "), facts.S)
	if len(args) > 0 {
		fmt.Fprintf(&sb, "(assert (%s_facts %s))\n", t.Name, strings.Join(args, " "))
	} else {
		fmt.Fprintf(&sb, "(assert %s_facts)\n", t.Name)
	}
	fmt.Fprintf(&sb, "(assert (not (%s_post %s %s)))\n(check-sat)\n", t.Name, strings.Join(args, " "), observed)
	f, err := os.CreateTemp(d.Dir, "judge-*.smt2")
	if err != nil {
		return "error", err.Error()
	}
	f.WriteString(sb.String())
	f.Close()
	defer os.Remove(f.Name())
	ctx, cancel := context.WithTimeout(context.Background(), 60*time.Second)
	defer cancel()
	cmd := exec.CommandContext(ctx, "z3-new", "-smt2", "-t:30000", f.Name())
	var out bytes.Buffer
	cmd.Stdout = &out
	cmd.Stderr = &out
	_ = cmd.Run()
	for _, ln := range strings.Split(out.String(), "\n") {
		ln = strings.TrimSpace(ln)
		if ln == "sat" || ln == "unsat" || ln == "unknown" {
			return ln, out.String()
		}
	}
	return "noanswer", out.String()
}
