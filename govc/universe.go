package main

// Loading of /repo (working tree, -tags verif), function/table/constant index, contract binding.

import (
	"fmt"
	"go/ast"
	"go/constant"
	"go/token"
	"go/types"
	"os"
	"path/filepath"
	"sort"
	"strings"
	"sync"

	"golang.org/x/tools/go/packages"
)

const modPath = "github.com/goark/go-cvss"

var pkgAlias = map[string]string{
	modPath + "/v3/metric":       "v3m",
	modPath + "/v2/metric":       "v2m",
	modPath + "/v3/report":       "rep",
	modPath + "/v3/report/names": "nam",
	modPath + "/v3/version":      "ver",
	modPath + "/cvsserr":         "cerr",
}

type FuncInfo struct {
	Key      string // alias.Recv.Name or alias.Name
	Pkg      *packages.Package
	Decl     *ast.FuncDecl
	Obj      *types.Func
	Sig      *types.Signature
	Contract *Contract
	File     string
}

type TableEntry struct {
	Key    constant.Value // int or string constant (nil if non-constant key, e.g. language.English)
	KeyExp ast.Expr
	ValExp ast.Expr
}

type Table struct {
	Name    string // alias.varname
	Obj     *types.Var
	Pkg     *packages.Package
	Lit     *ast.CompositeLit
	Type    *types.Map
	Entries []TableEntry
}

type Universe struct {
	Fset          *token.FileSet
	Pkgs          map[string]*packages.Package // by alias
	Funcs         map[string]*FuncInfo
	FuncByObj     map[*types.Func]*FuncInfo
	Tables        map[*types.Var]*Table
	PkgVars       map[*types.Var]ast.Expr // initialiser of every package-level var
	Sentinel      map[*types.Var]int      // cvsserr sentinels -> bit index
	SentinelNames []string
	Contracts     map[string]*Contract
	Preds         map[string]*Pred
	Lemmas        []*Lemma
	Specs         map[string]*SpecSig
	SpecDefs      map[string]*SpecDef
	BasePrelude   string
	Oracle        *Oracle
	Prelude       string
	RepoDir       string
	Problems      []string
	problemSeen   map[string]bool
	mu            sync.Mutex
	typeCache     map[string]types.Type
}

func aliasOf(p *types.Package) string {
	if p == nil {
		return ""
	}
	if a, ok := pkgAlias[p.Path()]; ok {
		return a
	}
	return p.Path()
}

func funcKey(fn *types.Func) string {
	sig := fn.Type().(*types.Signature)
	a := aliasOf(fn.Pkg())
	if r := sig.Recv(); r != nil {
		t := r.Type()
		if p, ok := t.(*types.Pointer); ok {
			t = p.Elem()
		}
		if n, ok := t.(*types.Named); ok {
			return a + "." + n.Obj().Name() + "." + fn.Name()
		}
	}
	return a + "." + fn.Name()
}

func loadUniverse(repo string) (*Universe, error) {
	cfg := &packages.Config{
		Mode:       packages.NeedName | packages.NeedFiles | packages.NeedCompiledGoFiles | packages.NeedSyntax | packages.NeedTypes | packages.NeedTypesInfo | packages.NeedImports | packages.NeedDeps,
		Dir:        repo,
		BuildFlags: []string{"-tags=verif"},
		Env:        append(os.Environ(), "GOFLAGS=-mod=mod", "GOPROXY=off", "GOSUMDB=off", "GOTOOLCHAIN=local"),
		ParseFile:  nil,
	}
	pkgs, err := packages.Load(cfg, "./cvsserr", "./v2/metric", "./v3/metric", "./v3/report", "./v3/report/names", "./v3/version")
	if err != nil {
		return nil, err
	}
	u := &Universe{
		Pkgs: map[string]*packages.Package{}, Funcs: map[string]*FuncInfo{}, FuncByObj: map[*types.Func]*FuncInfo{},
		Tables: map[*types.Var]*Table{}, PkgVars: map[*types.Var]ast.Expr{}, Sentinel: map[*types.Var]int{},
		Contracts: map[string]*Contract{}, Preds: map[string]*Pred{}, Specs: map[string]*SpecSig{}, RepoDir: repo,
	}
	for _, p := range pkgs {
		if len(p.Errors) > 0 {
			return nil, fmt.Errorf("package %s: %v", p.PkgPath, p.Errors)
		}
		a, ok := pkgAlias[p.PkgPath]
		if !ok {
			continue
		}
		u.Pkgs[a] = p
		u.Fset = p.Fset
	}
	for a, p := range u.Pkgs {
		for _, f := range p.Syntax {
			fname := p.Fset.Position(f.Pos()).Filename
			if strings.HasSuffix(fname, "_test.go") {
				continue
			}
			for _, d := range f.Decls {
				switch d := d.(type) {
				case *ast.FuncDecl:
					obj, _ := p.TypesInfo.Defs[d.Name].(*types.Func)
					if obj == nil {
						continue
					}
					fi := &FuncInfo{Key: funcKey(obj), Pkg: p, Decl: d, Obj: obj, Sig: obj.Type().(*types.Signature), File: fname}
					u.Funcs[fi.Key] = fi
					u.FuncByObj[obj] = fi
				case *ast.GenDecl:
					if d.Tok != token.VAR {
						continue
					}
					for _, s := range d.Specs {
						vs := s.(*ast.ValueSpec)
						for i, nm := range vs.Names {
							v, _ := p.TypesInfo.Defs[nm].(*types.Var)
							if v == nil || i >= len(vs.Values) {
								continue
							}
							u.PkgVars[v] = vs.Values[i]
							if cl, ok := vs.Values[i].(*ast.CompositeLit); ok {
								if mt, ok := v.Type().Underlying().(*types.Map); ok {
									t := &Table{Name: a + "." + v.Name(), Obj: v, Pkg: p, Lit: cl, Type: mt}
									for _, el := range cl.Elts {
										kv, ok := el.(*ast.KeyValueExpr)
										if !ok {
											continue
										}
										te := TableEntry{KeyExp: kv.Key, ValExp: kv.Value}
										if tv, ok := p.TypesInfo.Types[kv.Key]; ok && tv.Value != nil {
											te.Key = tv.Value
										}
										t.Entries = append(t.Entries, te)
									}
									u.Tables[v] = t
								}
							}
						}
					}
				}
			}
		}
	}
	// sentinels: cvsserr package-level error variables, in source order
	if cp := u.Pkgs["cerr"]; cp != nil {
		var vs []*types.Var
		for v := range u.PkgVars {
			if v.Pkg() == cp.Types {
				vs = append(vs, v)
			}
		}
		sort.Slice(vs, func(i, j int) bool { return vs[i].Pos() < vs[j].Pos() })
		for i, v := range vs {
			u.Sentinel[v] = i
			u.SentinelNames = append(u.SentinelNames, v.Name())
		}
	}
	return u, nil
}

// constsOfType lists the declared constants of a named type in its package, sorted by value.
func (u *Universe) constsOfType(n *types.Named) []*types.Const {
	var out []*types.Const
	sc := n.Obj().Pkg().Scope()
	for _, nm := range sc.Names() {
		if c, ok := sc.Lookup(nm).(*types.Const); ok && types.Identical(c.Type(), n) {
			out = append(out, c)
		}
	}
	sort.Slice(out, func(i, j int) bool {
		a, _ := constant.Int64Val(out[i].Val())
		b, _ := constant.Int64Val(out[j].Val())
		return a < b
	})
	return out
}

func (u *Universe) lookupConst(alias, name string) (*types.Const, bool) {
	p := u.Pkgs[alias]
	if p == nil {
		return nil, false
	}
	c, ok := p.Types.Scope().Lookup(name).(*types.Const)
	return c, ok
}

func (u *Universe) relFile(f string) string {
	r, err := filepath.Rel(u.RepoDir, f)
	if err != nil {
		return f
	}
	return r
}

func (u *Universe) problem(format string, args ...interface{}) {
	u.mu.Lock()
	defer u.mu.Unlock()
	msg := fmt.Sprintf(format, args...)
	if u.problemSeen == nil {
		u.problemSeen = map[string]bool{}
	}
	if u.problemSeen[msg] {
		return
	}
	u.problemSeen[msg] = true
	u.Problems = append(u.Problems, msg)
}
