package main

// Replay of refuted obligations on the real code (go test -overlay, nothing is written under the repository).

import (
	"fmt"
	"os"
	"path/filepath"
	"strings"
)

func describeInstance(u *Universe, st *SpecTables, o *Oblig) string {
	return ""
}

// writeReplay writes the replay file of a failed obligation and tries to confirm a failing input on the real code.
func writeReplay(u *Universe, st *SpecTables, d *Discharger, id string, o *Oblig, dir, repo string) (string, bool) {
	name := fmt.Sprintf("%s-%s", id, sanitize(o.Name))
	if o.Instance != "" {
		name += "-" + sanitize(o.Instance)
	}
	if len(name) > 180 {
		name = name[:180]
	}
	path := filepath.Join(dir, name+".txt")
	var sb strings.Builder
	fmt.Fprintf(&sb, "property: %s\nfailed obligation: %s\nkind: %s\ninstance: %s\nwhere: %s\nsolver: %s\nanswer: %s\nnote: %s\n\n", id, o.Name, o.Kind, o.Instance, o.Where, o.Solver, o.Result, o.Note)
	confirmed := false
	if id == "C16" && (o.Kind == "frame" || o.Kind == "g1") {
		rep, ok := raceReplay(repo)
		sb.WriteString("---- replay on the real code ----\n" + rep + "\n")
		confirmed = ok
	} else if strings.HasPrefix(o.Name, "sentinels#") {
		rep, ok := sentinelProbe(repo)
		sb.WriteString("---- replay on the real code ----\n" + rep + "\n")
		confirmed = ok
	} else if o.Kind == "g1" {
		rep, ok := probeProblem(u, st, repo, "/"+o.Where+" "+o.Note, id)
		sb.WriteString("---- replay on the real code ----\n" + rep + "\n")
		confirmed = ok
		if !ok {
			// package-level state that a sequential probe does not expose: results of concurrent use against sequential use
			rep, ok = raceReplay(repo)
			sb.WriteString(rep + "\n")
			confirmed = ok
		}
	} else if o.Kind == "frame" && o.Decls != nil && o.Decls.Fn != nil && o.Decls.Fn.Pkg != nil {
		rep, ok := purityProbe(repo, pkgDirOf(o.Decls.Fn))
		sb.WriteString("---- replay on the real code ----\n" + rep + "\n")
		confirmed = ok
	} else if id == "C17" && o.Decls != nil && o.Decls.Fn != nil && o.Decls.Fn.Pkg != nil && pkgDirOf(o.Decls.Fn) == "v3/report" {
		rep, ok := reportProbe(st, repo)
		sb.WriteString("---- replay on the real code ----\n" + rep + "\n")
		confirmed = ok
	} else if id == "C19" {
		rep, ok := templateProbe(repo)
		sb.WriteString("---- replay on the real code ----\n" + rep + "\n")
		confirmed = ok
	} else if rep, ok := replayInstance(u, st, d, o, repo, id); rep != "" {
		sb.WriteString("---- replay on the real code ----\n")
		sb.WriteString(rep)
		sb.WriteString("\n")
		confirmed = ok
	}
	if !confirmed && o.Decls != nil && o.Decls.Fn != nil && o.Decls.Fn.Pkg != nil && scoreProperty[id] {
		// no failing input from the obligation's own replay: look for one with the probes of its package
		switch pkgDirOf(o.Decls.Fn) {
		case "v3/metric":
			rep, ok := scoreProbe(u, st, repo, scoreAspect(id))
			sb.WriteString("---- probe ----\n" + rep + "\n")
			confirmed = ok
		case "v2/metric":
			rep, ok := v2ScoreProbe(u, st, repo, scoreAspect(id))
			sb.WriteString("---- probe ----\n" + rep + "\n")
			confirmed = ok
		}
	}
	if !confirmed && id == "C20" {
		rep, ok := tablesProbe(u, st, repo)
		sb.WriteString("---- probe ----\n" + rep + "\n")
		confirmed = ok
	}
	if !confirmed && id == "C18" {
		rep, ok := namesProbe(u, repo)
		sb.WriteString("---- probe ----\n" + rep + "\n")
		confirmed = ok
	}
	if !confirmed && id == "C12" && o.Decls != nil && o.Decls.Fn != nil && o.Decls.Fn.Pkg != nil {
		if pd := pkgDirOf(o.Decls.Fn); pd == "v3/metric" || pd == "v2/metric" {
			rep, ok := robustProbe(repo, pd)
			sb.WriteString("---- probe ----\n" + rep + "\n")
			confirmed = ok
		}
	}
	if o.Model != "" {
		sb.WriteString("---- solver output (model) ----\n")
		m := o.Model
		if len(m) > 6000 {
			m = m[:6000] + "\n...(truncated)"
		}
		sb.WriteString(m)
		sb.WriteString("\n")
	}
	sb.WriteString("---- obligation (SMT-LIB, without prelude) ----\n")
	sb.WriteString(declsText(o.Decls))
	if o.Template != nil {
		t := o.Template.defText()
		if len(t) > 20000 {
			t = t[:20000] + " ...(truncated)\n"
		}
		sb.WriteString(t)
	}
	ot := obligText(o, true)
	if len(ot) > 20000 {
		ot = ot[:20000] + " ...(truncated)\n"
	}
	sb.WriteString(ot)
	os.WriteFile(path, []byte(sb.String()), 0o644)
	return path, confirmed
}

// replayInstance: see replay_recipes.go
func replayCmd(args []string) int {
	if len(args) < 1 {
		fmt.Println("usage: verif replay <file>")
		return 2
	}
	b, err := os.ReadFile(args[0])
	if err != nil {
		fmt.Println(err)
		return 2
	}
	fmt.Print(string(b))
	return 0
}

// probeProblem: a generation problem (construct outside the subset, unbound contract, ...) has no model; the generic
// probes of the package it names are run to look for a failing input.
func probeProblem(u *Universe, st *SpecTables, repo, problem string, id string) (string, bool) {
	var sb strings.Builder
	hit := false
	if id == "C16" {
		return raceReplay(repo)
	}
	for alias, dir := range map[string]string{"v3m.": "v3/metric", "v2m.": "v2/metric", "rep.": "v3/report", "nam.": "v3/report"} {
		if !strings.Contains(problem, alias) && !strings.Contains(problem, "/"+dir+"/") {
			continue
		}
		if dir != "v3/report" {
			r, ok := decodeWitnessFor(st, repo, dir, id)
			sb.WriteString(r)
			hit = hit || ok
		}
		r, ok := purityProbe(repo, dir)
		sb.WriteString(r)
		hit = hit || ok
		if dir != "v3/report" && !hit && id == "C12" {
			r, ok := robustProbe(repo, dir)
			sb.WriteString(r)
			hit = hit || ok
		}
		if dir != "v3/report" && !hit && id == "C20" {
			r, ok := tablesProbe(u, st, repo)
			sb.WriteString(r)
			hit = hit || ok
		}
		if dir == "v3/metric" && !hit && scoreProperty[id] {
			r, ok := scoreProbe(u, st, repo, scoreAspect(id))
			sb.WriteString(r)
			hit = hit || ok
		}
		if dir == "v2/metric" && !hit && scoreProperty[id] {
			r, ok := v2ScoreProbe(u, st, repo, scoreAspect(id))
			sb.WriteString(r)
			hit = hit || ok
		}
		if alias == "nam." && !hit {
			r, ok := namesProbe(u, repo)
			sb.WriteString(r)
			hit = hit || ok
		}
		if dir == "v3/report" {
			r, ok := templateProbe(repo)
			sb.WriteString(r)
			hit = hit || ok
			r, ok = reportProbe(st, repo)
			sb.WriteString(r)
			hit = hit || ok
		}
	}
	if !hit && id != "C15" && (strings.Contains(problem, "package-level variable") || strings.Contains(problem, "package-level map")) {
		// state shared between objects or calls: visible under concurrent use
		r, ok := raceReplay(repo)
		sb.WriteString(r)
		hit = ok
	}
	if !hit && id == "C15" {
		// state shared between objects that sequential probes do not expose
		r, ok := raceReplay(repo)
		sb.WriteString(r)
		hit = ok
	}
	return sb.String(), hit
}

// scoreProperty: properties whose statements are about scores and severities of vectors; only for these may a score probe
// stand in as the replay of a refuted obligation.
var scoreProperty = map[string]bool{"C01": true, "C02": true, "C03": true, "C04": true, "C05": true, "C06": true, "C13": true, "C14": true}
