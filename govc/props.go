package main

// Property plans: which functions (symbolic runs), families and lemmas each property rests on.

import (
	"sort"
	"strings"
)

type Unit struct {
	Func     string   // function key: symbolic run of all non-family ensures + safety + frame
	Labels   []string // restrict the symbolic run to ensures carrying one of these labels (nil = all)
	Families []string // family names of Func to discharge ("*" = all)
	Lemma    string   // lemma name
	NoSym    bool     // families only
}

type PropPlan struct {
	ID          string
	Title       string
	Units       []Unit
	Assumptions []string
	Meta        []string // meta-level composition steps, stated in the evidence
	Technique   string
}

func metricFuncs(alias string, st *SpecFamily, level string, names ...string) []Unit {
	var out []Unit
	want := map[string]bool{}
	for _, n := range names {
		want[n] = true
	}
	for _, m := range st.Metrics {
		if level != "" && m.Level != level {
			continue
		}
		if len(want) > 0 && !want[m.Name] {
			continue
		}
		for _, fn := range []string{"Value", "IsUnknown", "IsValid", "IsChanged", "IsDefined", "String"} {
			out = append(out, Unit{Func: alias + "." + m.Type + "." + fn})
		}
		out = append(out, Unit{Func: alias + "." + m.Get})
	}
	return out
}

var assumptionText = map[string]string{
	"A1":  "A1: strings.Split(s, sep) returns >= 1 pieces whose sep-join is s; strings.Join is concatenation with separators",
	"A2":  "A2: strings/fmt/errs/errors functions used do not panic; errs.Wrap keeps the wrapped error reachable for errors.Is and adds no other sentinel; errs.WithCause adds the cause's match set",
	"A3":  "A3: fmt.Sprintf with %v/%s renders a string as itself and a fmt.Stringer by its String()",
	"A4":  "A4: strings.Builder / bytes.Buffer accumulate exactly what is written",
	"A5":  "A5: math.Pow and strconv.FormatFloat are deterministic pure functions on this platform; their values at every ground argument used are produced by the real functions in this run and sanity-checked in exact arithmetic",
	"A7":  "A7: language.Tag values compare with ==; English and Japanese are different tags",
	"A9":  "A9: compiler and hardware implement IEEE-754 binary64 RNE for + - * / and do not fuse multiply-add (GOARCH=amd64, GOAMD64=v1 checked at start)",
	"A10": "A10: the VC generator (govc) is unverified; mitigations: solver cross-check in the thorough tier, replay of refutations on the real code, must-fail self-test corpus, cover/vacuity guards",
	"map-order-free": "range over a package-level map literal is modelled as iteration in an unspecified order (every entry whose body returns is a possible result)",
	"G1":  "G1 (checked syntactically every run): no function of the five packages assigns to, deletes from or takes the address of a package-level variable",
}

func (u *Universe) plans(st *SpecTables) map[string]*PropPlan {
	v3 := func(names ...string) []Unit { return metricFuncs("v3m", st.V3, "", names...) }
	v2 := func(names ...string) []Unit { return metricFuncs("v2m", st.V2, "", names...) }
	cat := func(us ...[]Unit) []Unit {
		var out []Unit
		for _, x := range us {
			out = append(out, x...)
		}
		return out
	}
	P := map[string]*PropPlan{}
	P["C01"] = &PropPlan{ID: "C01", Title: "v3 base score = FIRST base equations",
		Units: cat(v3("AV", "AC", "PR", "UI", "S", "C", "I", "A"), []Unit{
			{Func: "v3m.Base.GetError"},
			{Func: "v3m.Base.Score", Families: []string{"base"}},
		}),
		Assumptions: []string{"A5", "A9", "A10"},
		Meta: []string{"Decoder independence: Score is a function of the exported fields only (frame 'modifies nothing' + functional postcondition), so the score of a decoded object is the score of its fields whichever decoder produced them (fields per C09)."},
	}
	P["C02"] = &PropPlan{ID: "C02", Title: "v3 temporal score = Roundup(Base x E x RL x RC) on the rounded base score",
		Units: cat(v3("E", "RL", "RC"), []Unit{
			{Func: "v3m.Base.GetError"},
			{Func: "v3m.Base.Score", Families: []string{"base"}},
			{Func: "v3m.Temporal.GetError"},
			{Func: "v3m.Temporal.Score", Families: []string{"temporal"}},
			{Lemma: "v3_temporal_compose"},
		}),
		Assumptions: []string{"A5", "A9", "A10"},
		Meta: []string{"Composition: Base.Score() === tenth(kb) with kb = v3_base_k(fields) (C01 family 'base'); Temporal.Score() === tenth(v3_outer_k(kb, E, RL, RC)) for every kb in 0..100 (family 'temporal'); v3_temporal_k = v3_outer_k o v3_base_k by definition (lemma v3_temporal_compose)."},
	}
	P["C03"] = &PropPlan{ID: "C03", Title: "v3 environmental score = FIRST environmental equations",
		Units: cat(v3("CR", "IR", "AR", "MAV", "MAC", "MPR", "MUI", "MS", "MC", "MI", "MA", "AV", "AC", "PR", "UI", "S", "C", "I", "A", "E", "RL", "RC"), []Unit{
			{Func: "v3m.Base.GetError"}, {Func: "v3m.Temporal.GetError"}, {Func: "v3m.Environmental.GetError"},
			{Func: "v3m.Environmental.Score", Families: []string{"inner", "outer"}},
			{Lemma: "v3_env_compose"},
		}),
		Assumptions: []string{"A5", "A9", "A10"},
		Meta: []string{"Composition: family 'inner' shows that, for every combination of version, effective metrics and requirements, a non-positive modified impact returns 0 and otherwise the inner Roundup equals tenth(v3_env_inner_k) (and lies in 0..100); family 'outer' shows the outer Roundup(inner x E x RL x RC) for every inner value 0..100; v3_env_k is their composition by definition (lemma v3_env_compose). 'Not Defined takes the base value' is carried by the Modified*.Value contracts (effective metric eff_v3_*)."},
	}
	P["C04"] = &PropPlan{ID: "C04", Title: "v2 base and temporal scores = FIRST v2 equations",
		Units: cat(v2("AV", "AC", "Au", "C", "I", "A", "E", "RL", "RC"), []Unit{
			{Func: "v2m.Base.GetError"},
			{Func: "v2m.Base.Score", Families: []string{"base"}},
			{Func: "v2m.Temporal.IsEmpty"}, {Func: "v2m.Temporal.GetError"},
			{Func: "v2m.Temporal.Score", Families: []string{"temporal", "empty"}},
		}),
		Assumptions: []string{"A9", "A10"},
		Meta: []string{"Composition: Base.Score() is fp-equal to tenth(kb), kb a nearest tenth of the exact base equation (family 'base'); Temporal.Score() is a nearest tenth of (kb/10) x E x RL x RC for every kb in 0..100 incl. -0.0 (family 'temporal'), and equals the base score when the temporal group is absent (family 'empty')."},
	}
	P["C05"] = &PropPlan{ID: "C05", Title: "v2 environmental score = FIRST v2 environmental equations",
		Units: cat(v2("AV", "AC", "Au", "C", "I", "A", "E", "RL", "RC", "CDP", "TD", "CR", "IR", "AR"), []Unit{
			{Func: "v2m.Base.GetError"}, {Func: "v2m.Base.Score", Families: []string{"base"}},
			{Func: "v2m.Temporal.IsEmpty"}, {Func: "v2m.Temporal.GetError"},
			{Func: "v2m.Environmental.IsEmpty"}, {Func: "v2m.Environmental.GetError"},
			{Func: "v2m.Environmental.Score", Families: []string{"adjbase", "adjgrid", "adjtemp", "final", "final0", "none", "none0"}},
		}),
		Assumptions: []string{"A9", "A10"},
		Meta: []string{"Stages: 'adjbase' (adjusted base score is a nearest tenth of the base equation on AdjustedImpact, 46,656 instances), 'adjtemp' (temporal equation on every adjusted base score -2.0..10.0), 'final'/'final0' (CDP/TD equation on every adjusted temporal score), 'none'/'none0' (environmental group absent: temporal score). Exact halves may round either way at every rounding step (near1)."},
	}
	scoreUnitsV3 := []Unit{
		{Func: "v3m.Base.GetError"}, {Func: "v3m.Temporal.GetError"}, {Func: "v3m.Environmental.GetError"},
		{Func: "v3m.Base.Score", Families: []string{"base"}},
		{Func: "v3m.Temporal.Score", Families: []string{"temporal"}},
		{Func: "v3m.Environmental.Score", Families: []string{"inner", "outer"}},
	}
	scoreUnitsV2 := []Unit{
		{Func: "v2m.Base.GetError"}, {Func: "v2m.Temporal.IsEmpty"}, {Func: "v2m.Temporal.GetError"}, {Func: "v2m.Environmental.IsEmpty"}, {Func: "v2m.Environmental.GetError"},
		{Func: "v2m.Base.Score", Families: []string{"base"}},
		{Func: "v2m.Temporal.Score", Families: []string{"temporal", "empty"}},
		{Func: "v2m.Environmental.Score", Families: []string{"adjgrid", "adjtemp", "final", "final0", "none", "none0"}},
	}
	P["C06"] = &PropPlan{ID: "C06", Title: "scores lie on the tenth grid in range; severity is the band of the same level's score",
		Units: cat(v3(), v2(), scoreUnitsV3, scoreUnitsV2, []Unit{
			{Func: "v3m.severity"}, {Func: "v3m.Severity.String"},
			{Func: "v3m.Base.Severity", Families: []string{"sev"}}, {Func: "v3m.Temporal.Severity", Families: []string{"sev"}}, {Func: "v3m.Environmental.Severity", Families: []string{"sev"}},
			{Func: "v2m.severity"}, {Func: "v2m.Severity.String"},
			{Func: "v2m.Base.Severity", Families: []string{"sev"}}, {Func: "v2m.Temporal.Severity", Families: []string{"sev"}}, {Func: "v2m.Environmental.Severity", Families: []string{"sev"}},
			{Lemma: "v3_grid_prints"},
		}),
		Assumptions: []string{"A5", "A9", "A10"},
		Meta: []string{"Grid and range: every Score() postcondition of the score families has the form result === tenth(k) (v3) or result fp-equal to a nearest tenth with explicit range bounds (v2), with 0 <= k <= 100 (v2 environmental: -20..100 where the FIRST equation itself is negative); invalid objects score +0.0 ([C12] postconditions). Severity(): for every grid value ks of the same level's Score() (replace family over 0..100, v2 incl. -0.0) the result is the rating band of ks; a Severity() that consults another level's score does not reach the replaced call and fails the cut-point obligation. Printing: strconv.FormatFloat of each of the 101 grid doubles is the decimal with at most one digit (oracle table produced by the real function in this run)."},
	}
	P["C13"] = &PropPlan{ID: "C13", Title: "Not Defined neutrality; temporal never exceeds base",
		Units: cat(v3("E", "RL", "RC", "CR", "IR", "AR", "MAV", "MAC", "MPR", "MUI", "MS", "MC", "MI", "MA"), v2("E", "RL", "RC", "TD", "CDP"), scoreUnitsV3, scoreUnitsV2, []Unit{
			{Lemma: "v3_env_neutral"}, {Lemma: "v3_eff_neutral"}, {Lemma: "v3_temporal_neutral"}, {Lemma: "v3_temporal_le_base"},
		}),
		Assumptions: []string{"A5", "A9", "A10"},
		Meta: []string{"v3/v2 temporal with E, RL, RC Not Defined equals the base score and temporal <= base: conjuncts of the temporal families' postconditions (result === tenth(kb) when all three are Not Defined; v3_outer_k(kb,...) <= kb; v2: result <= tenth(kb)). v3 environmental with all environmental metrics Not Defined: the Modified*.Value contracts give the base weights (lemma v3_eff_neutral), lemma family v3_env_neutral (5,184 instances, spec side) shows equal zero cut-off and equal inner Roundup unless scope changed and version 3.1, and the outer stage is the same function v3_outer_k as the temporal score; with C03 and C02 this is environmental == temporal. v2 Target Distribution None => 0: conjunct of the final-stage families."},
	}
	P["C20"] = &PropPlan{ID: "C20", Title: "value codes, enumeration values and weights form the specification's tables",
		Units: cat(v3(), v2(), []Unit{{Func: "v3m.Version.String"}, {Func: "v3m.get"}}),
		Assumptions: []string{"A10", "map-order-free"},
	}
	return P
}

func (p *PropPlan) assumptionList(extra map[string]bool) []string {
	seen := map[string]bool{}
	var out []string
	add := func(k string) {
		if seen[k] {
			return
		}
		seen[k] = true
		if t, ok := assumptionText[k]; ok {
			out = append(out, t)
		} else {
			out = append(out, k)
		}
	}
	for _, a := range p.Assumptions {
		add(a)
	}
	ks := make([]string, 0, len(extra))
	for k := range extra {
		ks = append(ks, k)
	}
	sort.Strings(ks)
	for _, k := range ks {
		add(k)
	}
	return out
}

func hasFamily(list []string, name string) bool {
	for _, l := range list {
		if l == "*" || l == name {
			return true
		}
	}
	return false
}

func shortInst(s string) string {
	return strings.TrimSpace(s)
}
