package main

// Property plans: which functions (symbolic runs), families and lemmas each property rests on.

import (
	"sort"
	"strings"
)

type Unit struct {
	Func       string   // function key: symbolic run of all non-family ensures + safety + frame
	Labels     []string // restrict the symbolic run to ensures carrying one of these labels (nil = all)
	Families   []string // family names of Func to discharge ("*" = all)
	Lemma      string   // lemma name
	NoSym      bool     // families only
	Scen       bool     // run all scenarios of Func
	Alias      string   // all functions under contract of this package alias
	LemmaLabel string   // all lemmas carrying this label
	G1         bool     // global-frame check (no writes to package-level state)
}

type PropPlan struct {
	ID          string
	Title       string
	Units       []Unit
	Assumptions []string
	Meta        []string // meta-level composition steps, stated in the evidence
	Technique   string
}

func metricFuncs(alias string, st *SpecFamily, level string, names ...string) []Unit {
	var out []Unit
	want := map[string]bool{}
	for _, n := range names {
		want[n] = true
	}
	for _, m := range st.Metrics {
		if level != "" && m.Level != level {
			continue
		}
		if len(want) > 0 && !want[m.Name] {
			continue
		}
		for _, fn := range []string{"Value", "IsUnknown", "IsValid", "IsChanged", "IsDefined", "String"} {
			out = append(out, Unit{Func: alias + "." + m.Type + "." + fn})
		}
		out = append(out, Unit{Func: alias + "." + m.Get})
	}
	return out
}

var assumptionText = map[string]string{
	"A1":             "A1: strings.Split(s, sep) returns >= 1 pieces whose sep-join is s; strings.Join is concatenation with separators",
	"A2":             "A2: strings/fmt/errs/errors functions used do not panic; errs.Wrap keeps the wrapped error reachable for errors.Is and adds no other sentinel; errs.WithCause adds the cause's match set",
	"A3":             "A3: fmt.Sprintf with %v/%s renders a string as itself and a fmt.Stringer by its String()",
	"A4":             "A4: strings.Builder / bytes.Buffer accumulate exactly what is written",
	"A5":             "A5: math.Pow and strconv.FormatFloat are deterministic pure functions on this platform; their values at every ground argument used are produced by the real functions in this run and sanity-checked in exact arithmetic",
	"A7":             "A7: language.Tag values compare with ==; English and Japanese are different tags",
	"A9":             "A9: compiler and hardware implement IEEE-754 binary64 RNE for + - * / and do not fuse multiply-add (GOARCH=amd64, GOAMD64=v1 checked at start)",
	"A10":            "A10: the VC generator (govc) is unverified; mitigations: solver cross-check in the thorough tier, replay of refutations on the real code, must-fail self-test corpus, cover/vacuity guards",
	"map-order-free": "range over a package-level map literal is modelled as iteration in an unspecified order (every entry whose body returns is a possible result)",
	"G1":             "G1 (checked syntactically every run): no function of the five packages assigns to, deletes from or takes the address of a package-level variable",
}

func (u *Universe) plans(st *SpecTables) map[string]*PropPlan {
	v3 := func(names ...string) []Unit { return metricFuncs("v3m", st.V3, "", names...) }
	v2 := func(names ...string) []Unit { return metricFuncs("v2m", st.V2, "", names...) }
	cat := func(us ...[]Unit) []Unit {
		var out []Unit
		for _, x := range us {
			out = append(out, x...)
		}
		return out
	}
	P := map[string]*PropPlan{}
	objFuncs0 := func(alias string, names ...string) []Unit {
		var out []Unit
		for _, t := range []string{"Base", "Temporal", "Environmental"} {
			for _, n := range names {
				u := Unit{Func: alias + "." + t + "." + n}
				if n == "Decode" {
					u.Scen = true
				}
				out = append(out, u)
			}
		}
		return out
	}
	// the decoders tie "vector" to "fields" for the score properties (their statements quantify over vectors)
	vecV3 := cat([]Unit{{Func: "v3m.NewBase"}, {Func: "v3m.NewTemporal"}, {Func: "v3m.NewEnvironmental"}, {Func: "v3m.GetVersion"}, {Func: "v3m.get"}}, objFuncs0("v3m", "decodeOne", "GetError", "Decode", "BaseMetrics", "TemporalMetrics"))
	vecV2 := cat([]Unit{{Func: "v2m.NewBase"}, {Func: "v2m.NewTemporal"}, {Func: "v2m.NewEnvironmental"}}, objFuncs0("v2m", "decodeOne", "GetError", "IsEmpty", "Encode", "Decode", "BaseMetrics", "TemporalMetrics"))
	// every query of the version: their 'modifies nothing' keeps a decoded object's scores what they are whatever else is
	// asked of it first (a query that writes into the object it is applied to, or into its embedded objects, fails here)
	qryV3 := objFuncs0("v3m", "GetError", "Encode", "String", "Score", "Severity", "BaseMetrics", "TemporalMetrics")
	qryV2 := objFuncs0("v2m", "GetError", "Encode", "String", "Score", "Severity", "BaseMetrics", "TemporalMetrics", "IsEmpty")
	P["C01"] = &PropPlan{ID: "C01", Title: "v3 base score = FIRST base equations",
		Units: cat(v3("AV", "AC", "PR", "UI", "S", "C", "I", "A"), []Unit{
			{Func: "v3m.Base.GetError"},
			{Func: "v3m.Base.Score", Families: []string{"base"}},
		}, v3(), vecV3, qryV3),
		Assumptions: []string{"A1", "A2", "A5", "A9", "A10"},
		Meta:        []string{"History independence: every query of the version carries 'modifies nothing' (frames of GetError, Encode, String, Score, Severity and the accessors at all three levels are part of the plan), so the base score obtained through any object is not changed by what was asked of it before. Decoder independence: Score is a function of the exported fields only (frame 'modifies nothing' + functional postcondition), so the score of a decoded object is the score of its fields whichever decoder produced them (fields per C09)."},
	}
	P["C02"] = &PropPlan{ID: "C02", Title: "v3 temporal score = Roundup(Base x E x RL x RC) on the rounded base score",
		Units: cat(v3("E", "RL", "RC"), []Unit{
			{Func: "v3m.Base.GetError"},
			{Func: "v3m.Base.Score", Families: []string{"base"}},
			{Func: "v3m.Temporal.GetError"},
			{Func: "v3m.Temporal.Score", Families: []string{"temporal"}},
			{Lemma: "v3_temporal_compose"},
		}, v3(), vecV3, qryV3),
		Assumptions: []string{"A1", "A2", "A5", "A9", "A10"},
		Meta:        []string{"Composition: Base.Score() === tenth(kb) with kb = v3_base_k(fields) (C01 family 'base'); Temporal.Score() === tenth(v3_outer_k(kb, E, RL, RC)) for every kb in 0..100 (family 'temporal'); v3_temporal_k = v3_outer_k o v3_base_k by definition (lemma v3_temporal_compose)."},
	}
	P["C03"] = &PropPlan{ID: "C03", Title: "v3 environmental score = FIRST environmental equations",
		Units: cat(v3("CR", "IR", "AR", "MAV", "MAC", "MPR", "MUI", "MS", "MC", "MI", "MA", "AV", "AC", "PR", "UI", "S", "C", "I", "A", "E", "RL", "RC"), []Unit{
			{Func: "v3m.Base.GetError"}, {Func: "v3m.Temporal.GetError"}, {Func: "v3m.Environmental.GetError"},
			{Func: "v3m.Environmental.Score", Families: []string{"inner", "outer"}},
			{Lemma: "v3_env_compose"},
		}, v3(), vecV3, qryV3),
		Assumptions: []string{"A1", "A2", "A5", "A9", "A10"},
		Meta:        []string{"Composition: family 'inner' shows that, for every combination of version, effective metrics and requirements, a non-positive modified impact returns 0 and otherwise the inner Roundup equals tenth(v3_env_inner_k) (and lies in 0..100); family 'outer' shows the outer Roundup(inner x E x RL x RC) for every inner value 0..100; v3_env_k is their composition by definition (lemma v3_env_compose). 'Not Defined takes the base value' is carried by the Modified*.Value contracts (effective metric eff_v3_*)."},
	}
	P["C04"] = &PropPlan{ID: "C04", Title: "v2 base and temporal scores = FIRST v2 equations",
		Units: cat(v2("AV", "AC", "Au", "C", "I", "A", "E", "RL", "RC"), []Unit{
			{Func: "v2m.Base.GetError"},
			{Func: "v2m.Base.Score", Families: []string{"base"}},
			{Func: "v2m.Temporal.IsEmpty"}, {Func: "v2m.Temporal.GetError"},
			{Func: "v2m.Temporal.Score", Families: []string{"temporal", "empty"}},
		}, v2(), vecV2, qryV2),
		Assumptions: []string{"A1", "A2", "A3", "A4", "A9", "A10"},
		Meta:        []string{"Composition: Base.Score() is fp-equal to tenth(kb), kb a nearest tenth of the exact base equation (family 'base'); Temporal.Score() is a nearest tenth of (kb/10) x E x RL x RC for every kb in 0..100 incl. -0.0 (family 'temporal'), and equals the base score when the temporal group is absent (family 'empty')."},
	}
	P["C05"] = &PropPlan{ID: "C05", Title: "v2 environmental score = FIRST v2 environmental equations",
		Units: cat(v2("AV", "AC", "Au", "C", "I", "A", "E", "RL", "RC", "CDP", "TD", "CR", "IR", "AR"), []Unit{
			{Func: "v2m.Base.GetError"}, {Func: "v2m.Base.Score", Families: []string{"base"}},
			{Func: "v2m.Temporal.IsEmpty"}, {Func: "v2m.Temporal.GetError"},
			{Func: "v2m.Environmental.IsEmpty"}, {Func: "v2m.Environmental.GetError"},
			{Func: "v2m.Environmental.Score", Families: []string{"adjbase", "adjgrid", "adjtemp", "final", "final0", "none", "none0"}},
		}, v2(), vecV2, qryV2),
		Assumptions: []string{"A1", "A2", "A3", "A4", "A9", "A10"},
		Meta:        []string{"Stages: 'adjbase' (adjusted base score is a nearest tenth of the base equation on AdjustedImpact, 46,656 instances), 'adjtemp' (temporal equation on every adjusted base score -2.0..10.0), 'final'/'final0' (CDP/TD equation on every adjusted temporal score), 'none'/'none0' (environmental group absent: temporal score). Exact halves may round either way at every rounding step (near1)."},
	}
	scoreUnitsV3 := []Unit{
		{Func: "v3m.Base.GetError"}, {Func: "v3m.Temporal.GetError"}, {Func: "v3m.Environmental.GetError"},
		{Func: "v3m.Base.Score", Families: []string{"base"}},
		{Func: "v3m.Temporal.Score", Families: []string{"temporal"}},
		{Func: "v3m.Environmental.Score", Families: []string{"inner", "outer"}},
	}
	scoreUnitsV2 := []Unit{
		{Func: "v2m.Base.GetError"}, {Func: "v2m.Temporal.IsEmpty"}, {Func: "v2m.Temporal.GetError"}, {Func: "v2m.Environmental.IsEmpty"}, {Func: "v2m.Environmental.GetError"},
		{Func: "v2m.Base.Score", Families: []string{"base"}},
		{Func: "v2m.Temporal.Score", Families: []string{"temporal", "empty"}},
		{Func: "v2m.Environmental.Score", Families: []string{"adjgrid", "adjtemp", "final", "final0", "none", "none0"}},
	}
	P["C06"] = &PropPlan{ID: "C06", Title: "scores lie on the tenth grid in range; severity is the band of the same level's score",
		Units: cat(v3(), v2(), vecV3, vecV2, qryV3, qryV2, scoreUnitsV3, scoreUnitsV2, []Unit{
			{Func: "v3m.roundUp"}, // symbolic contract over all doubles in [0,10]: thorough tier only (minutes on cvc5)
			{Func: "v3m.severity"}, {Func: "v3m.Severity.String"},
			{Func: "v3m.Base.Severity", Families: []string{"sev"}}, {Func: "v3m.Temporal.Severity", Families: []string{"sev"}}, {Func: "v3m.Environmental.Severity", Families: []string{"sev"}},
			{Func: "v2m.roundTo1Decimal"}, // thorough tier
			{Func: "v2m.severity"}, {Func: "v2m.Severity.String"},
			{Func: "v2m.Base.Severity", Families: []string{"sev"}}, {Func: "v2m.Temporal.Severity", Families: []string{"sev"}}, {Func: "v2m.Environmental.Severity", Families: []string{"sev"}},
			{Lemma: "v3_grid_prints"},
		}),
		Assumptions: []string{"A1", "A2", "A3", "A4", "A5", "A9", "A10"},
		Meta:        []string{"The statement quantifies over vectors: the decoders of both versions are part of the plan (fields per C09, frames of Decode), so a decoder that lets stale state into a reused receiver fails here too. Grid and range: every Score() postcondition of the score families has the form result === tenth(k) (v3) or result fp-equal to a nearest tenth with explicit range bounds (v2), with 0 <= k <= 100 (v2 environmental: -20..100 where the FIRST equation itself is negative); invalid objects score +0.0 ([C12] postconditions). Severity(): for every grid value ks of the same level's Score() (replace family over 0..100, v2 incl. -0.0) the result is the rating band of ks; a Severity() that consults another level's score does not reach the replaced call and fails the cut-point obligation. Printing: strconv.FormatFloat of each of the 101 grid doubles is the decimal with at most one digit (oracle table produced by the real function in this run)."},
	}
	P["C13"] = &PropPlan{ID: "C13", Title: "Not Defined neutrality; temporal never exceeds base",
		Units: cat(v3("E", "RL", "RC", "CR", "IR", "AR", "MAV", "MAC", "MPR", "MUI", "MS", "MC", "MI", "MA"), v2("E", "RL", "RC", "TD", "CDP"), vecV3, vecV2, qryV3, qryV2, scoreUnitsV3, scoreUnitsV2, []Unit{
			{Lemma: "v3_env_neutral"}, {Lemma: "v3_eff_neutral"}, {Lemma: "v3_temporal_neutral"}, {Lemma: "v3_temporal_le_base"},
		}),
		Assumptions: []string{"A1", "A2", "A3", "A4", "A5", "A9", "A10"},
		Meta:        []string{"The statement quantifies over vectors: the decoders of both versions are part of the plan (unwritten metrics ARE Not Defined after Decode; frames of Decode). v3/v2 temporal with E, RL, RC Not Defined equals the base score and temporal <= base: conjuncts of the temporal families' postconditions (result === tenth(kb) when all three are Not Defined; v3_outer_k(kb,...) <= kb; v2: result <= tenth(kb)). v3 environmental with all environmental metrics Not Defined: the Modified*.Value contracts give the base weights (lemma v3_eff_neutral), lemma family v3_env_neutral (5,184 instances, spec side) shows equal zero cut-off and equal inner Roundup unless scope changed and version 3.1, and the outer stage is the same function v3_outer_k as the temporal score; with C03 and C02 this is environmental == temporal. v2 Target Distribution None => 0: conjunct of the final-stage families."},
	}
	rtLemmas := func(v string, f *SpecFamily) []Unit {
		var out []Unit
		for _, m := range f.Metrics {
			out = append(out, Unit{Lemma: "c20_roundtrip_" + v + "_" + m.Name}, Unit{Lemma: "c20_roundtrip2_" + v + "_" + m.Name})
		}
		return out
	}
	objFuncs := func(alias string, names ...string) []Unit {
		var out []Unit
		for _, t := range []string{"Base", "Temporal", "Environmental"} {
			for _, n := range names {
				u := Unit{Func: alias + "." + t + "." + n}
				if n == "Decode" {
					u.Scen = true
				}
				out = append(out, u)
			}
		}
		return out
	}
	consV3 := []Unit{{Func: "v3m.NewBase"}, {Func: "v3m.NewTemporal"}, {Func: "v3m.NewEnvironmental"}, {Func: "v3m.GetVersion"}, {Func: "v3m.get"}, {Func: "v3m.Version.String"}}
	consV2 := []Unit{{Func: "v2m.NewBase"}, {Func: "v2m.NewTemporal"}, {Func: "v2m.NewEnvironmental"}}
	decV3 := cat(v3(), consV3, objFuncs("v3m", "decodeOne", "GetError", "Decode"))
	decV2 := cat(v2(), consV2, objFuncs("v2m", "decodeOne", "GetError", "IsEmpty", "Encode", "Decode"))
	a1 := []string{"A1", "A2", "A3", "A4", "A10", "map-order-free"}
	P["C07"] = &PropPlan{ID: "C07", Title: "v3 decoders accept exactly the well-formed vectors of their level",
		Units: cat(decV3, rtLemmas("v3", st.V3)), Assumptions: a1,
		Meta: []string{"(err == nil) <==> wf_v3_<level>(vector) is a postcondition of each Decode for every string (every number of tokens; loop invariant over the processed prefix), wf_v3 being the property's sentence over the pieces of strings.Split (token theory in the prelude). 'Arbitrary byte strings' are covered because a token is an arbitrary '/'-free string (A1). Additionally every canonical vector of symbolic valid codes is executed exactly (scenarios canon_new / canon_nil) and accepted with the written fields."},
	}
	P["C08"] = &PropPlan{ID: "C08", Title: "v2 decoders accept exactly the canonical vectors of their level",
		Units: cat(decV2, rtLemmas("v2", st.V2)), Assumptions: a1,
		Meta: []string{"Direction accepted => canonical: postcondition [C08] of each Decode for every string: the object is valid, groups are all-or-nothing and the input string IS the canonical concatenation of the decoded codes (so it is one of the canonical vectors). Direction canonical => accepted: scenarios canon_s6/s9/s11/s14 (constructor-fresh and nil receiver): for every canonical vector of the level with symbolic valid codes the decoder is executed exactly (the token list of a structured string is known by A1) and accepts with exactly those fields. Higher-level groups offered to a lower decoder are rejected by the first direction."},
	}
	queryObj := func(alias string) []Unit {
		return objFuncs(alias, "GetError", "Encode", "String", "Score", "Severity", "BaseMetrics", "TemporalMetrics", "IsEmpty")
	}
	P["C09"] = &PropPlan{ID: "C09", Title: "a decoded object holds exactly the values written in the vector",
		Units: cat(decV3, decV2, queryObj("v3m"), queryObj("v2m")), Assumptions: a1,
		Meta: []string{"[C09] postconditions of every Decode: version and each field equal the parse of the value of the (unique) token with that name; unwritten v3 temporal/environmental metrics are Not Defined, v2 group name flags are set iff a token of the group was written (IsEmpty contracts). Order independence: the postcondition determines every field from the SET {(name, value)} of tokens (names are pairwise distinct on accepted vectors), so two accepted vectors with the same token set give equal fields; scores depend on fields only (Score contracts). X explicit vs omitted: parse(\"X\") is the Not Defined value, which is also the constructor's default - same fields, same scores, same encoding. The object keeps holding these values: every query carries 'modifies nothing' (frame obligations of Score, Severity, GetError, Encode, String, accessors)."},
	}
	encUnits := cat(objFuncs("v3m", "Encode", "String"), objFuncs("v2m", "Encode", "String"))
	P["C10"] = &PropPlan{ID: "C10", Title: "encoding is canonical; decode-encode-decode is the identity",
		Units: cat(decV3, decV2, encUnits, queryObj("v3m"), queryObj("v2m"), rtLemmas("v3", st.V3), rtLemmas("v2", st.V2)), Assumptions: a1,
		Meta: []string{"Encode/String postconditions give the exact canonical text for every object whose names are recorded (v3: prefix, specification order, X spelled out for every temporal/environmental metric of the level; v2: exactly the recorded groups); on accepted objects (Decode postconditions: all base names recorded, fields valid) Encode succeeds. v2: the encoding is byte-identical to the input (Decode [C08]: vector == canonical text == Encode text). Round trip: the canonical text of any valid field assignment decodes to exactly those fields (scenarios, both versions), hence Decode(Encode(x)) has the fields of x and therefore the same scores and the same encoding. The encoding of a decoded object stays the canonical one whatever is asked of the object in between: every query carries 'modifies nothing' (frame obligations of Score, Severity, GetError, Encode, String, accessors)."},
	}
	P["C11"] = &PropPlan{ID: "C11", Title: "every rejection reports one sentinel naming a defect the input really has",
		Units: cat(decV3, decV2), Assumptions: a1,
		Meta: []string{"[C11] postconditions of every Decode: a non-nil error matches exactly one sentinel (errors are modelled as their errors.Is match set), and for each sentinel the corresponding defect predicate holds of the token list (malformed prefix/token, other version, repeated name, unknown value, name outside the level, missing base metric, v2 incomplete group, v2 misordered = all tokens valid and pairwise distinct yet not canonical). 'Exactly one kind of defect => that kind is reported' follows: the reported sentinel's defect is present, so if only one kind is present it is that one."},
	}
	allObj := func(alias string) []Unit {
		return objFuncs(alias, "decodeOne", "GetError", "Decode", "Encode", "String", "Score", "Severity", "BaseMetrics", "TemporalMetrics", "IsEmpty")
	}
	P["C12"] = &PropPlan{ID: "C12", Title: "no panic, never both/neither, no fabricated results",
		Units: cat(v3(), v2(), consV3, consV2, allObj("v3m"), allObj("v2m"), []Unit{{Func: "v3m.severity"}, {Func: "v2m.severity"}}), Assumptions: a1,
		Meta: []string{"Safety obligations (nil dereference on every hop of promoted fields, slice index and slice bounds, write to a nil map) are generated without annotation at every such operation of every function above and discharged under the precondition 'receiver nil or object invariant'; the invariant (embedded pointers and names maps non-nil and pairwise distinct) is established by the constructors and preserved by every method including a failed Decode ([C12] postconditions). Decode: (object == nil) != (error == nil) for every string. Unknown/invalid version or metric => GetError/Encode report an error and Score is +0.0 ([C12] postconditions with the *Known predicates). float->int conversion outside int64 and NaN do not panic in Go (modelled as unspecified value)."},
	}
	P["C14"] = &PropPlan{ID: "C14", Title: "base, temporal and environmental views of one vector agree",
		Units: cat(decV3, decV2, encUnits, objFuncs("v3m", "BaseMetrics", "TemporalMetrics"), objFuncs("v2m", "BaseMetrics", "TemporalMetrics"), scoreUnitsV3, scoreUnitsV2), Assumptions: append(a1, "A5", "A9"),
		Meta: []string{"Accessor contracts: BaseMetrics()/TemporalMetrics() return the embedded object itself (nil on nil). By the Decode postconditions of the higher-level decoder the embedded object's fields are the parses of the lower-level tokens; by the scenarios / C09 a lower-level decoder applied to the projected vector reaches the same fields and name flags; Score, Severity and Encode are functions of exactly that state with 'modifies nothing' (their contracts), so the results are equal. A query that writes into the embedded object (e.g. a cached score) fails the frame obligation."},
	}
	allPkgs := []Unit{{Alias: "v3m"}, {Alias: "v2m"}, {Alias: "nam"}, {Alias: "rep"}, {Alias: "ver"}, {G1: true}}
	P["C15"] = &PropPlan{ID: "C15", Title: "queries never modify a metrics object; results are deterministic and history-free",
		Units: allPkgs, Assumptions: []string{"A1", "A2", "A3", "A4", "A6", "A7", "A10", "G1", "map-order-free"},
		Meta: []string{"Frame obligations: every query (GetError, Encode, String, Score, Severity, IsEmpty, accessors, all per-metric functions, all name functions, report constructors and exports) carries 'modifies nothing'; for each finished path and each heap field array the obligation 'every pre-allocated object keeps its value' is discharged (Decode/decodeOne: only the declared fields of the receiver's own objects). G1 (syntactic, every run): no function of the five packages assigns to, deletes from, takes the address of or lets escape a package-level variable, so there is no state outside the objects. Constructors return fresh objects with fresh name maps (allocation postconditions). Hence, by induction on the length of a call sequence with the frame as the inductive step, every query leaves every observable of every object unchanged and the result of a call depends only on the argument state: repeating or reordering queries, or earlier activity of the process, cannot change any result. Map iteration order cannot show: the code tables are injective (C20 round-trip lemmas) and range-over-table is modelled with unspecified order."},
	}
	P["C16"] = &PropPlan{ID: "C16", Title: "concurrent use is data-race free and equals sequential use (sufficient condition)",
		Units: allPkgs, Assumptions: []string{"A1", "A2", "A3", "A4", "A6", "A7", "A10", "G1", "A8: the standard library, x/text and errs are themselves race-free for the calls made", "map-order-free"},
		Meta: []string{"Sufficient condition, decided deductively: by the frames and G1 (see C15) the operations named in the property write only memory that the calling goroutine owns - objects it allocated itself (decoders' own objects, options, buffers, reports) or the receiver of its own Decode - and only READ shared decoded objects and package tables. By the Go memory model a data race needs a write to shared memory; without one every interleaving is equivalent to some sequential order, and by determinism (C15) each result equals the sequential one. The quantifier over schedules is discharged by this meta argument, not by the solver. Not decided: designs that share mutable state under correct synchronisation (they would fail the sufficient condition although the property may hold) and races inside dependencies (A8)."},
	}
	P["C17"] = &PropPlan{ID: "C17", Title: "every report field shows its own metric, in the requested language",
		Units: []Unit{{Func: "rep.newOptions", NoSym: true, Scen: true}, {Func: "rep.NewBase"}, {Func: "rep.NewTemporal"}, {Func: "rep.NewEnvironmental"},
			{Alias: "nam"}, {LemmaLabel: "C18"}, {Func: "v3m.Version.String"}, {Func: "v3m.Temporal.BaseMetrics"}, {Func: "v3m.Environmental.TemporalMetrics"}, {Lemma: "v3_grid_prints"}},
		Assumptions: []string{"A5", "A7", "A10", "A-opt: an option list is represented by the language it selects (English without options); tied to the real closures of WithOptionsLanguage by exact execution of newOptions with 0, 1, 2, 3 and 4 options (the loop applies the options in order, the last one wins; 5+ not executed)"},
		Meta:        []string{"One postcondition per exported field of the three report structs (23 + 12 + 28 fields plus the embedded reports' fields): title fields equal the summary of the title function of the metric the field is named after, value fields the summary of that metric's value-name function applied to that metric's field of the metrics object, both at the requested language; Version/Vector are the version label and the Encode() text of the same level (call-site ghost of <Level>.Encode#0); <Level>Score is FormatFloat of the value returned by <Level>.Score#0 and SeverityValue the name of the value returned by <Level>.Severity#0 (a constructor that consults another level's score/severity does not make that call and fails); embedded reports are built from the embedded metrics with the same options. Name functions are distinguishable because their summaries are exact (C18)."},
	}
	P["C19"] = &PropPlan{ID: "C19", Title: "template export renders faithfully and fails cleanly (relative to text/template)",
		Units: []Unit{{Func: "rep.getTempleteString"}, {Func: "rep.executeTemplate"},
			{Func: "rep.BaseReport.ExportWith"}, {Func: "rep.BaseReport.ExportWithString"}, {Func: "rep.TemporalReport.ExportWith"}, {Func: "rep.TemporalReport.ExportWithString"},
			{Func: "rep.EnvironmentalReport.ExportWith"}, {Func: "rep.EnvironmentalReport.ExportWithString"}},
		Assumptions: []string{"A2", "A4", "A6: text/template parse/execute are deterministic functions of (text, data) that write only to the given buffer and return errors instead of panicking; io.Copy returns the reader's full content or an error; library errors match none of the cvsserr sentinels", "A10"},
		Meta:        []string{"The wrappers are proved faithful GIVEN A6: on success the returned reader is non-nil and its content is exactly tt_exec_out(template text, report) with a nil error; a template that does not parse or execute, a nil or failing reader yield a nil reader and an error matching exactly ErrInvalidTemplate (the partially filled buffer is never returned); a nil report yields ErrNullPointer; ExportWith(r) equals ExportWithString(content of r). Nothing is proved about text/template itself."},
	}
	P["C18"] = &PropPlan{ID: "C18", Title: "localised names are total, unambiguous and fall back to English",
		Units:       []Unit{{Alias: "nam"}, {LemmaLabel: "C18"}, {Func: "v3m.Severity.String"}},
		Assumptions: []string{"A7", "A10", "map-order-free"},
		Meta:        []string{"Each of the 52 name functions is executed symbolically (symbolic enumeration integer, symbolic language tag) against: non-empty result for every input, Unknown / 未定義 for every out-of-range value. Its summary fn_nam_<F> (the result as a term of the parameters, from the same symbolic execution) carries the lemmas: any tag other than the Japanese tag yields exactly the English name (hence every tag whose language is neither English nor Japanese), pairwise distinct names of defined values per language (ground lemma families over value pairs), Modified value name = base value name in both languages."},
	}
	P["C20"] = &PropPlan{ID: "C20", Title: "value codes, enumeration values and weights form the specification's tables",
		Units:       cat(v3(), v2(), []Unit{{Func: "v3m.Version.String"}, {Func: "v3m.get"}, {Func: "ver.Num.String"}, {Func: "ver.Get"}}, rtLemmas("v3", st.V3), rtLemmas("v2", st.V2)),
		Assumptions: []string{"A10", "map-order-free"},
	}
	return P
}

func (p *PropPlan) assumptionList(extra map[string]bool) []string {
	seen := map[string]bool{}
	var out []string
	add := func(k string) {
		if seen[k] {
			return
		}
		seen[k] = true
		if t, ok := assumptionText[k]; ok {
			out = append(out, t)
		} else {
			out = append(out, k)
		}
	}
	for _, a := range p.Assumptions {
		add(a)
	}
	ks := make([]string, 0, len(extra))
	for k := range extra {
		ks = append(ks, k)
	}
	sort.Strings(ks)
	for _, k := range ks {
		add(k)
	}
	return out
}

func hasFamily(list []string, name string) bool {
	for _, l := range list {
		if l == "*" || l == name {
			return true
		}
	}
	return false
}

func shortInst(s string) string {
	return strings.TrimSpace(s)
}
