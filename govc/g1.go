package main

// G1: no function of the five packages writes package-level state (checked syntactically on the typed AST, every run).
// A package-level map may only be read (index, comma-ok, range); any other use counts as an escape.

import (
	"fmt"
	"go/ast"
	"go/token"
	"go/types"
	"strings"
)

func (u *Universe) checkG1() []*Oblig {
	var out []*Oblig
	report := func(pos token.Pos, what string) {
		ps := u.Fset.Position(pos)
		out = append(out, &Oblig{Name: fmt.Sprintf("G1#%s:%d", u.relFile(ps.Filename), ps.Line), Kind: "g1", Goal: tFalse, Result: "sat", Solver: "syntactic", Where: fmt.Sprintf("%s:%d", u.relFile(ps.Filename), ps.Line), Note: what})
	}
	nfun := 0
	for _, p := range u.Pkgs {
		info := p.TypesInfo
		isPkgVar := func(e ast.Expr) *types.Var {
			for {
				switch x := e.(type) {
				case *ast.ParenExpr:
					e = x.X
					continue
				case *ast.IndexExpr:
					e = x.X
					continue
				case *ast.SelectorExpr:
					if _, ok := info.Selections[x]; ok {
						e = x.X
						continue
					}
					if v, ok := info.Uses[x.Sel].(*types.Var); ok && v.Parent() == v.Pkg().Scope() {
						return v
					}
					return nil
				case *ast.StarExpr:
					e = x.X
					continue
				case *ast.Ident:
					if v, ok := info.Uses[x].(*types.Var); ok && v.Pkg() != nil && v.Parent() == v.Pkg().Scope() {
						return v
					}
					return nil
				default:
					return nil
				}
			}
		}
		for _, f := range p.Syntax {
			fname := p.Fset.Position(f.Pos()).Filename
			if strings.HasSuffix(fname, "_test.go") {
				continue
			}
			for _, d := range f.Decls {
				fd, ok := d.(*ast.FuncDecl)
				if !ok || fd.Body == nil {
					continue
				}
				nfun++
				// parents for "read-only use" classification of package-level maps
				var stack []ast.Node
				ast.Inspect(fd.Body, func(n ast.Node) bool {
					if n == nil {
						stack = stack[:len(stack)-1]
						return true
					}
					stack = append(stack, n)
					switch x := n.(type) {
					case *ast.AssignStmt:
						for _, l := range x.Lhs {
							if v := isPkgVar(l); v != nil && x.Tok != token.DEFINE {
								report(l.Pos(), "assignment to (an element of) package-level variable "+v.Name())
							}
						}
					case *ast.IncDecStmt:
						if v := isPkgVar(x.X); v != nil {
							report(x.Pos(), "inc/dec of package-level variable "+v.Name())
						}
					case *ast.UnaryExpr:
						if x.Op == token.AND {
							if v := isPkgVar(x.X); v != nil {
								report(x.Pos(), "address of package-level variable "+v.Name())
							}
						}
					case *ast.CallExpr:
						if id, ok := x.Fun.(*ast.Ident); ok {
							if b, ok := info.Uses[id].(*types.Builtin); ok && (b.Name() == "delete" || b.Name() == "clear") && len(x.Args) > 0 {
								if v := isPkgVar(x.Args[0]); v != nil {
									report(x.Pos(), b.Name()+" on package-level variable "+v.Name())
								}
							}
						}
					case *ast.Ident:
						v, ok := info.Uses[x].(*types.Var)
						if !ok || v.Pkg() == nil || v.Parent() != v.Pkg().Scope() {
							break
						}
						if _, inRepo := pkgAlias[v.Pkg().Path()]; !inRepo {
							break
						}
						if _, isMap := v.Type().Underlying().(*types.Map); !isMap {
							// values of basic types and error values are immutable (assignments to the variable itself are
							// reported above); anything else (slices, pointers, structs, pools, ...) may only be indexed,
							// ranged over or measured
							switch ut := v.Type().Underlying().(type) {
							case *types.Basic:
								return true
							case *types.Interface:
								if types.Identical(v.Type(), types.Universe.Lookup("error").Type()) {
									return true
								}
								_ = ut
							}
							okUse := false
							if len(stack) >= 2 {
								par := stack[len(stack)-2]
								if sel, isSel := par.(*ast.SelectorExpr); isSel && sel.Sel == x && len(stack) >= 3 {
									par = stack[len(stack)-3] // qualified identifier pkg.Var
								}
								switch pp := par.(type) {
								case *ast.IndexExpr:
									if _, isSlice := v.Type().Underlying().(*types.Slice); isSlice || isArrayType(v.Type()) {
										okUse = pp.X == ast.Expr(x) || isQualOf(pp.X, x)
									}
								case *ast.RangeStmt:
									okUse = pp.X == ast.Expr(x) || isQualOf(pp.X, x)
								case *ast.CallExpr:
									if id, ok := pp.Fun.(*ast.Ident); ok {
										if b, ok := info.Uses[id].(*types.Builtin); ok && (b.Name() == "len" || b.Name() == "cap") {
											okUse = true
										}
									}
								}
							}
							if !okUse {
								report(x.Pos(), "package-level variable "+v.Name()+" of a mutable type ("+v.Type().String()+") is used other than by index / range / len (it may be aliased, escape or be mutated)")
							}
							break
						}
						// allowed parents: IndexExpr.X, RangeStmt.X, receiver of a method call of a read-only helper (getNameInLang)
						if len(stack) >= 2 {
							switch par := stack[len(stack)-2].(type) {
							case *ast.IndexExpr:
								if par.X == ast.Expr(x) {
									return true
								}
							case *ast.RangeStmt:
								if par.X == ast.Expr(x) {
									return true
								}
							case *ast.SelectorExpr:
								if par.X == ast.Expr(x) || par.Sel == x {
									if par.Sel == x { // qualified identifier pkg.Var: classify by the grandparent
										if len(stack) >= 3 {
											switch gp := stack[len(stack)-3].(type) {
											case *ast.IndexExpr:
												if gp.X == ast.Expr(par) {
													return true
												}
											case *ast.RangeStmt:
												if gp.X == ast.Expr(par) {
													return true
												}
											}
										}
									} else if par.Sel.Name == "getNameInLang" {
										return true
									}
								}
							case *ast.CallExpr:
								// passed to an unexported helper of the repository (a generic lookup helper): the executor follows
								// the alias into the helper (helpers without contract are inlined) and reports a write through it
								for _, a := range par.Args {
									if a == ast.Expr(x) {
										if id, ok := par.Fun.(*ast.Ident); ok {
											if fn, ok := info.Uses[id].(*types.Func); ok && !fn.Exported() && fn.Pkg() == v.Pkg() {
												return true
											}
										}
										if ie, ok := par.Fun.(*ast.IndexExpr); ok { // explicit instantiation helper[K](...)
											if id, ok := ie.X.(*ast.Ident); ok {
												if fn, ok := info.Uses[id].(*types.Func); ok && !fn.Exported() && fn.Pkg() == v.Pkg() {
													return true
												}
											}
										}
									}
								}
							case *ast.ReturnStmt:
								// an unexported helper that selects a table (return pkgTable, true): the alias is followed by the
								// executor in the callers (helpers without contract are inlined), writes through it are reported there
								if !fd.Name.IsExported() {
									return true
								}
							case *ast.AssignStmt:
								// m = pkgTable (local alias of a table, as in PrivilegesRequired.Value): reads only are checked on the alias by the executor
								for _, r := range par.Rhs {
									if r == ast.Expr(x) {
										return true
									}
								}
							}
						}
						report(x.Pos(), "package-level map "+v.Name()+" is used other than by index / range (it may escape or be mutated)")
					}
					return true
				})
			}
		}
	}
	if len(out) == 0 {
		out = append(out, &Oblig{Name: fmt.Sprintf("G1#no-write-to-package-level-state(%d functions scanned)", nfun), Kind: "g1", Goal: tTrue, Result: "unsat", Solver: "syntactic"})
	}
	return out
}

// checkSentinels: the error model identifies an error with its errors.Is match set over the cvsserr sentinels, which
// presupposes that the sentinels are pairwise distinct values: each must be initialised by its own errors.New(literal).
func (u *Universe) checkSentinels() []*Oblig {
	var out []*Oblig
	cp := u.Pkgs["cerr"]
	if cp == nil {
		return []*Oblig{{Name: "sentinels#package-missing", Kind: "g1", Goal: tFalse, Result: "sat", Solver: "syntactic", Note: "package cvsserr not loaded"}}
	}
	n := 0
	for v, init := range u.PkgVars {
		if v.Pkg() != cp.Types {
			continue
		}
		n++
		ok := false
		if call, isCall := init.(*ast.CallExpr); isCall {
			if sel, isSel := call.Fun.(*ast.SelectorExpr); isSel && sel.Sel.Name == "New" {
				if id, isID := sel.X.(*ast.Ident); isID && id.Name == "errors" && len(call.Args) == 1 {
					if lit, isLit := call.Args[0].(*ast.BasicLit); isLit && lit.Kind == token.STRING {
						ok = true
					}
				}
			}
		}
		if !ok {
			ps := u.Fset.Position(init.Pos())
			out = append(out, &Oblig{Name: "sentinels#" + v.Name(), Kind: "g1", Goal: tFalse, Result: "sat", Solver: "syntactic", Where: fmt.Sprintf("%s:%d", u.relFile(ps.Filename), ps.Line),
				Note: "sentinel " + v.Name() + " is not initialised by its own errors.New(<literal>): sentinels may alias"})
		}
	}
	if n != 11 {
		out = append(out, &Oblig{Name: "sentinels#count", Kind: "g1", Goal: tFalse, Result: "sat", Solver: "syntactic", Note: fmt.Sprintf("%d sentinels declared in cvsserr, the error model has 11", n)})
	}
	if len(out) == 0 {
		out = append(out, &Oblig{Name: "sentinels#pairwise-distinct(11 errors.New values)", Kind: "g1", Goal: tTrue, Result: "unsat", Solver: "syntactic"})
	}
	return out
}

func isArrayType(t types.Type) bool {
	_, ok := t.Underlying().(*types.Array)
	return ok
}

// isQualOf: e is the qualified identifier pkg.x
func isQualOf(e ast.Expr, x *ast.Ident) bool {
	sel, ok := e.(*ast.SelectorExpr)
	return ok && sel.Sel == x
}
