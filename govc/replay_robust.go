package main

// C12 probe, used as replay for refuted safety / "no fabricated result" obligations: every observer on nil receivers,
// fresh constructor results, objects left behind by failed decodes, and decoded objects with one exported field reset to
// its unknown/invalid value (0) must not panic; where the version or a metric of the queried level is unknown/invalid,
// GetError and Encode must report an error and Score must be 0. Used only to confirm refutations.

import (
	"strings"
	"sync"
)

const robustBody = `
import (
	"fmt"
	"reflect"
	"testing"
)

type vrQ interface {
	Score() float64
	GetError() error
	Encode() (string, error)
	String() string
}

func vrCall(what string, f func()) (panicked string) {
	defer func() {
		if r := recover(); r != nil {
			panicked = fmt.Sprintf("%s panics: %v", what, r)
		}
	}()
	f()
	return ""
}

// vrObservers runs every observer; returns a description of the first panic
func vrObservers(name string, o vrQ, extra func()) string {
	for _, c := range []struct {
		n string
		f func()
	}{
		{"Score", func() { o.Score() }}, {"GetError", func() { o.GetError() }}, {"Encode", func() { o.Encode() }}, {"String", func() { _ = o.String() }}, {"Severity/accessors", extra},
	} {
		if p := vrCall(name+"."+c.n+"()", c.f); p != "" {
			return p
		}
	}
	return ""
}

func vrInvalidMustFail(name string, o vrQ) string {
	err := o.GetError()
	_, eerr := o.Encode()
	sc := o.Score()
	if err == nil || eerr == nil || sc != 0 {
		return fmt.Sprintf("%s: GetError()=%v Encode() error=%v Score()=%v (an error from both and score 0 are required)", name, err, eerr, sc)
	}
	return ""
}

func vrResetEach(obj interface{}, level int, fields [][]string, check func(desc string) string) string {
	// fields[l] = exported metric fields of level l (0 base, 1 temporal, 2 environmental), reachable through embedded pointers
	v := reflect.ValueOf(obj).Elem()
	for l := 0; l <= level; l++ {
		for _, fn := range fields[l] {
			f := v.FieldByName(fn)
			if !f.IsValid() || !f.CanSet() {
				continue
			}
			old := f.Int()
			f.SetInt(0)
			r := check(fmt.Sprintf("field %s reset to its unknown/invalid value 0", fn))
			f.SetInt(old)
			if r != "" {
				return r
			}
		}
	}
	return ""
}
`

const robustV3 = `package metric
` + robustBody + `
func TestVerifRobust(t *testing.T) {
	fields := [][]string{{"Ver", "AV", "AC", "PR", "UI", "S", "C", "I", "A"}, {"E", "RL", "RC"}, {"CR", "IR", "AR", "MAV", "MAC", "MPR", "MUI", "MS", "MC", "MI", "MA"}}
	full := "CVSS:3.1/AV:N/AC:L/PR:L/UI:N/S:C/C:H/I:L/A:H/E:F/RL:W/RC:R/CR:H/IR:M/AR:L/MAV:A/MAC:H/MPR:N/MUI:R/MS:U/MC:L/MI:H/MA:N"
	bad := []string{"", "CVSS:3.1", "CVSS:3.1/AV:N", "CVSS:3.1/AV:N/AC:L/PR:L/UI:N/S:C/C:H/I:L/A:H/E:F/RL:W/RC:0", "CVSS:3.1/AV:N/AC:L/PR:L/UI:N/S:C/C:H/I:L/A:H/E:Q", "CVSS:3.1/AV:N/AC:L/PR:L/UI:N/S:C/C:H/I:L/A:H/E:F/CR:H/IR:Q",
		"CVSS:3.1/AV:N/AC:L/PR:L/UI:N/S:C/C:H/I:L/A:Z", "CVSS:2.0/AV:N", "CVSS:3.1/AV:N/AV:N", "CVSS:3.1/AV:N/AC:L/PR:L/UI:N/S:C/C:H/I:L/A:H/MAV:", "CVSS:3.1/AV:N/AC:L/PR:L/UI:N/S:C/C:H/I:L/A:H/XX:Y", ":", "/", "CVSS:3.1//", "CVSS:3.1/AV:N/AC:L/PR:L/UI:N/S:C/C:H/I:L/A:H/MS:Q"}
	type obj struct {
		name  string
		q     vrQ
		extra func()
		raw   interface{}
		level int
	}
	mk := func() []obj {
		b, tm, em := NewBase(), NewTemporal(), NewEnvironmental()
		return []obj{{"Base", b, func() { b.Severity(); b.BaseMetrics() }, b, 0},
			{"Temporal", tm, func() { tm.Severity(); tm.BaseMetrics().Score() }, tm, 1},
			{"Environmental", em, func() { em.Severity(); em.BaseMetrics().Score(); em.TemporalMetrics().Score() }, em, 2}}
	}
	dec := func(o obj, s string) (ok bool, both string) {
		var r interface{}
		var err error
		switch x := o.raw.(type) {
		case *Base:
			var rr *Base
			rr, err = x.Decode(s)
			if rr != nil {
				r = rr
			}
		case *Temporal:
			var rr *Temporal
			rr, err = x.Decode(s)
			if rr != nil {
				r = rr
			}
		case *Environmental:
			var rr *Environmental
			rr, err = x.Decode(s)
			if rr != nil {
				r = rr
			}
		}
		if (r == nil) == (err == nil) {
			return false, fmt.Sprintf("%s decoder, input %q: object returned=%v, error=%v (exactly one is required)", o.name, s, r != nil, err)
		}
		return err == nil, ""
	}
	// nil receivers
	var nb *Base
	var nt *Temporal
	var ne *Environmental
	for _, o := range []obj{{"(*Base)(nil)", nb, func() { nb.Severity(); nb.BaseMetrics() }, nil, 0}, {"(*Temporal)(nil)", nt, func() { nt.Severity(); nt.BaseMetrics() }, nil, 1}, {"(*Environmental)(nil)", ne, func() { ne.Severity(); ne.BaseMetrics(); ne.TemporalMetrics() }, nil, 2}} {
		if p := vrObservers(o.name, o.q, o.extra); p != "" {
			fmt.Println("ROBUST-HIT " + p)
			return
		}
		if r := vrInvalidMustFail(o.name, o.q); r != "" {
			fmt.Println("ROBUST-HIT " + r)
			return
		}
	}
	if p := vrCall("nil decoders", func() { nb.Decode(full); nt.Decode(full); ne.Decode(full); nb.Decode("x"); nt.Decode(""); ne.Decode("CVSS:3.1/") }); p != "" {
		fmt.Println("ROBUST-HIT " + p)
		return
	}
	// fresh objects
	for _, o := range mk() {
		if p := vrObservers("fresh "+o.name, o.q, o.extra); p != "" {
			fmt.Println("ROBUST-HIT " + p)
			return
		}
		if r := vrInvalidMustFail("fresh "+o.name, o.q); r != "" {
			fmt.Println("ROBUST-HIT " + r)
			return
		}
	}
	// failed decodes: no panic, never both / neither, observers on the leftover do not panic; a leftover that reports no error may score
	for _, s := range bad {
		for _, o := range mk() {
			var ok bool
			var both string
			if p := vrCall(o.name+".Decode("+fmt.Sprintf("%q", s)+")", func() { ok, both = dec(o, s) }); p != "" {
				fmt.Println("ROBUST-HIT " + p)
				return
			}
			if both != "" {
				fmt.Println("ROBUST-HIT " + both)
				return
			}
			if ok {
				continue
			}
			if p := vrObservers(o.name+" left behind by the failed Decode("+fmt.Sprintf("%q", s)+")", o.q, o.extra); p != "" {
				fmt.Println("ROBUST-HIT " + p)
				return
			}
			// the same decoder used again after the failure
			if p := vrCall(o.name+" decoder after the failed Decode("+fmt.Sprintf("%q", s)+"): second Decode", func() { _, both = dec(o, full) }); p != "" {
				fmt.Println("ROBUST-HIT " + p)
				return
			}
			if both != "" {
				fmt.Println("ROBUST-HIT after a failed decode: " + both)
				return
			}
			// leftover with an invalid metric of its own level
			invalid := false
			v := reflect.ValueOf(o.raw).Elem()
			for l := 0; l <= o.level; l++ {
				for _, fn := range fields[l] {
					if f := v.FieldByName(fn); f.IsValid() && f.Int() == 0 {
						invalid = true
					}
				}
			}
			if invalid {
				if r := vrInvalidMustFail(o.name+" left behind by the failed Decode("+fmt.Sprintf("%q", s)+")", o.q); r != "" {
					fmt.Println("ROBUST-HIT " + r)
					return
				}
			}
		}
	}
	// decoded objects with one field reset
	for _, o := range mk() {
		if ok, _ := dec(o, full); !ok {
			continue
		}
		r := vrResetEach(o.raw, o.level, fields, func(desc string) string {
			if p := vrObservers(o.name+" decoded from "+full+" with "+desc, o.q, o.extra); p != "" {
				return p
			}
			return vrInvalidMustFail(o.name+" decoded from "+full+" with "+desc, o.q)
		})
		if r != "" {
			fmt.Println("ROBUST-HIT " + r)
			return
		}
	}
	fmt.Println("ROBUST-NONE no panic, no fabricated result")
}
`

const robustV2 = `package metric
` + robustBody + `
func TestVerifRobust(t *testing.T) {
	fields := [][]string{{"AV", "AC", "Au", "C", "I", "A"}, {"E", "RL", "RC"}, {"CDP", "TD", "CR", "IR", "AR"}}
	full := "AV:N/AC:L/Au:S/C:P/I:C/A:N/E:F/RL:W/RC:UR/CDP:LM/TD:M/CR:H/IR:L/AR:ND"
	bad := []string{"", "AV:N", "AV:N/AC:L/Au:S/C:P/I:C/A:N/E:F", "AV:N/AC:L/Au:S/C:P/I:C/A:N/E:F/RL:W/RC:0", "AV:N/AC:L/Au:S/C:P/I:C/A:Z", "AV:N/AV:N", "AC:L/AV:N/Au:S/C:P/I:C/A:N", ":", "/", "AV:N/AC:L/Au:S/C:P/I:C/A:N/CDP:LM/TD:Q/CR:H/IR:L/AR:ND", "AV:N/AC:L/Au:S/C:P/I:C/A:N/XX:Y", "(AV:N/AC:L/Au:S/C:P/I:C/A:N)"}
	type obj struct {
		name  string
		q     vrQ
		extra func()
		raw   interface{}
		level int
	}
	mk := func() []obj {
		b, tm, em := NewBase(), NewTemporal(), NewEnvironmental()
		return []obj{{"Base", b, func() { b.Severity() }, b, 0},
			{"Temporal", tm, func() { tm.Severity(); tm.BaseMetrics().Score() }, tm, 1},
			{"Environmental", em, func() { em.Severity(); em.BaseMetrics().Score(); em.TemporalMetrics().Score() }, em, 2}}
	}
	dec := func(o obj, s string) (ok bool, both string) {
		var r interface{}
		var err error
		switch x := o.raw.(type) {
		case *Base:
			var rr *Base
			rr, err = x.Decode(s)
			if rr != nil {
				r = rr
			}
		case *Temporal:
			var rr *Temporal
			rr, err = x.Decode(s)
			if rr != nil {
				r = rr
			}
		case *Environmental:
			var rr *Environmental
			rr, err = x.Decode(s)
			if rr != nil {
				r = rr
			}
		}
		if (r == nil) == (err == nil) {
			return false, fmt.Sprintf("%s decoder, input %q: object returned=%v, error=%v (exactly one is required)", o.name, s, r != nil, err)
		}
		return err == nil, ""
	}
	var nb *Base
	var nt *Temporal
	var ne *Environmental
	for _, o := range []obj{{"(*Base)(nil)", nb, func() { nb.Severity() }, nil, 0}, {"(*Temporal)(nil)", nt, func() { nt.Severity(); nt.BaseMetrics() }, nil, 1}, {"(*Environmental)(nil)", ne, func() { ne.Severity(); ne.BaseMetrics(); ne.TemporalMetrics() }, nil, 2}} {
		if p := vrObservers(o.name, o.q, o.extra); p != "" {
			fmt.Println("ROBUST-HIT " + p)
			return
		}
		if r := vrInvalidMustFail(o.name, o.q); r != "" {
			fmt.Println("ROBUST-HIT " + r)
			return
		}
	}
	if p := vrCall("nil decoders", func() { nb.Decode(full); nt.Decode(full); ne.Decode(full); nb.Decode("x"); nt.Decode(""); ne.Decode("AV:N/") }); p != "" {
		fmt.Println("ROBUST-HIT " + p)
		return
	}
	for _, o := range mk() {
		if p := vrObservers("fresh "+o.name, o.q, o.extra); p != "" {
			fmt.Println("ROBUST-HIT " + p)
			return
		}
		if r := vrInvalidMustFail("fresh "+o.name, o.q); r != "" {
			fmt.Println("ROBUST-HIT " + r)
			return
		}
	}
	for _, s := range bad {
		for _, o := range mk() {
			var ok bool
			var both string
			if p := vrCall(o.name+".Decode("+fmt.Sprintf("%q", s)+")", func() { ok, both = dec(o, s) }); p != "" {
				fmt.Println("ROBUST-HIT " + p)
				return
			}
			if both != "" {
				fmt.Println("ROBUST-HIT " + both)
				return
			}
			if ok {
				continue
			}
			if p := vrObservers(o.name+" left behind by the failed Decode("+fmt.Sprintf("%q", s)+")", o.q, o.extra); p != "" {
				fmt.Println("ROBUST-HIT " + p)
				return
			}
			// the same decoder used again after the failure
			if p := vrCall(o.name+" decoder after the failed Decode("+fmt.Sprintf("%q", s)+"): second Decode", func() { _, both = dec(o, full) }); p != "" {
				fmt.Println("ROBUST-HIT " + p)
				return
			}
			if both != "" {
				fmt.Println("ROBUST-HIT after a failed decode: " + both)
				return
			}
		}
	}
	// decoded objects with one field of a present group reset
	for _, o := range mk() {
		if ok, _ := dec(o, full); !ok {
			continue
		}
		r := vrResetEach(o.raw, o.level, fields, func(desc string) string {
			if p := vrObservers(o.name+" decoded from "+full+" with "+desc, o.q, o.extra); p != "" {
				return p
			}
			return vrInvalidMustFail(o.name+" decoded from "+full+" with "+desc, o.q)
		})
		if r != "" {
			fmt.Println("ROBUST-HIT " + r)
			return
		}
	}
	fmt.Println("ROBUST-NONE no panic, no fabricated result")
}
`

var robustCache sync.Map

func robustProbe(repo, pkgDir string) (string, bool) {
	key := repo + "|" + pkgDir
	if v, ok := robustCache.Load(key); ok {
		r := v.([2]interface{})
		return r[0].(string), r[1].(bool)
	}
	src := robustV3
	if pkgDir == "v2/metric" {
		src = robustV2
	}
	out, err := runOverlayTest(repo, pkgDir, src, "TestVerifRobust")
	hit := strings.Contains(out, "ROBUST-HIT")
	rep := "robustness probe on the real code (" + pkgDir + "): every observer on nil receivers, fresh objects, objects left behind by failed decodes and decoded objects with one field reset to its unknown/invalid value; no panic, never object-and-error, error + score 0 where a metric of the level is invalid:\n"
	switch {
	case hit:
		i := strings.Index(out, "ROBUST-HIT")
		j := strings.Index(out[i:], "\n")
		rep += out[i:i+j] + "\n=> CONFIRMED\n"
	case strings.Contains(out, "ROBUST-NONE"):
		rep += "nothing observed in this probe\n"
	default:
		rep += "probe did not run to completion (" + errString(err) + "): " + tail(out, 800) + "\n"
	}
	robustCache.Store(key, [2]interface{}{rep, hit})
	return rep, hit
}
