package main

// Instance-validated oracles for external pure functions (math.Pow with exponent 13/15, strconv.FormatFloat):
// pass 1 asks the solver for the double value of every ground argument term, the real Go function is called on
// exactly those doubles, and pass 2 defines the function in SMT as that finite table (NaN / "?" elsewhere, so an
// argument outside the table can never discharge an obligation).

import (
	"bytes"
	"fmt"
	"math"
	"math/big"
	"os"
	"os/exec"
	"regexp"
	"sort"
	"strconv"
	"strings"
	"sync"
)

type Oracle struct {
	mu      sync.Mutex
	PowArgs map[int]map[string]bool // exponent -> set of ground argument terms
	FmtArgs map[string]bool
	PowTab  map[int]map[uint64]uint64
	FmtTab  map[uint64]string
	Sanity  []*Oblig
}

func newOracle() *Oracle {
	return &Oracle{PowArgs: map[int]map[string]bool{13: {}, 15: {}}, FmtArgs: map[string]bool{}, PowTab: map[int]map[uint64]uint64{13: {}, 15: {}}, FmtTab: map[uint64]string{}}
}

var rePowApp = regexp.MustCompile(`\(pow(13|15) `)

// collect scans an obligation's text for pow13/pow15/fmt_f64 applications and records their argument terms.
func (or *Oracle) collect(text string) {
	for _, fn := range []string{"pow13", "pow15", "fmt_f64"} {
		pat := "(" + fn + " "
		idx := 0
		for {
			i := strings.Index(text[idx:], pat)
			if i < 0 {
				break
			}
			start := idx + i + len(pat)
			// the argument is one s-expression
			depth := 0
			j := start
			for j < len(text) {
				if text[j] == '(' {
					depth++
				} else if text[j] == ')' {
					depth--
					if depth == 0 {
						j++
						break
					}
					if depth < 0 {
						break
					}
				} else if depth == 0 && (text[j] == ' ') {
					break
				}
				j++
			}
			arg := text[start:j]
			or.mu.Lock()
			switch fn {
			case "pow13":
				or.PowArgs[13][arg] = true
			case "pow15":
				or.PowArgs[15][arg] = true
			default:
				or.FmtArgs[arg] = true
			}
			or.mu.Unlock()
			idx = start
		}
	}
}

var reParam = regexp.MustCompile(`\bfp(\d+|k|rv)\b`)

// collectTemplate records, for every pow13/pow15/fmt_f64 application in a family template, the ground argument terms
// of all instances (the argument with its parameters bound by a let to every combination of their domains).
func (or *Oracle) collectTemplate(t *FamTemplate) {
	sub := newOracle()
	sub.collect(t.Body.S)
	handle := func(arg string, add func(string)) {
		ps := map[string]bool{}
		for _, m := range reParam.FindAllString(arg, -1) {
			ps[m] = true
		}
		if len(ps) == 0 {
			add(arg)
			return
		}
		var names []string
		var doms [][]string
		for i, p := range t.Params {
			if !ps[p.S] {
				continue
			}
			names = append(names, p.S)
			var vals []string
			switch {
			case i < len(t.Doms):
				for _, v := range t.Doms[i] {
					if p.Sort == SBool {
						vals = append(vals, mkBool(v != 0).S)
					} else {
						vals = append(vals, mkInt(v).S)
					}
				}
			case p.S == "fpk":
				for k := t.Fam.Lo; k <= t.Fam.Hi; k++ {
					vals = append(vals, mkInt(int64(k)).S)
				}
			case p.S == "fprv":
				for k := t.Fam.Lo; k <= t.Fam.Hi; k++ {
					vals = append(vals, "(tenth "+mkInt(int64(k)).S+")")
				}
				vals = append(vals, "(_ -zero 11 53)")
			}
			doms = append(doms, vals)
		}
		idx := make([]int, len(doms))
		for {
			var binds []string
			for i := range doms {
				binds = append(binds, "("+names[i]+" "+doms[i][idx[i]]+")")
			}
			add("(let (" + strings.Join(binds, " ") + ") " + arg + ")")
			k := len(idx) - 1
			for k >= 0 {
				idx[k]++
				if idx[k] < len(doms[k]) {
					break
				}
				idx[k] = 0
				k--
			}
			if k < 0 {
				break
			}
		}
	}
	or.mu.Lock()
	defer or.mu.Unlock()
	for _, n := range []int{13, 15} {
		for a := range sub.PowArgs[n] {
			n := n
			handle(a, func(s string) { or.PowArgs[n][s] = true })
		}
	}
	for a := range sub.FmtArgs {
		handle(a, func(s string) { or.FmtArgs[s] = true })
	}
}

var reFP = regexp.MustCompile(`\(fp #b([01]) #b([01]{11}) #x([0-9a-f]{13})\)`)

func parseFPLit(s string) (uint64, bool) {
	s = strings.TrimSpace(s)
	switch s {
	case "(_ +zero 11 53)":
		return 0, true
	case "(_ -zero 11 53)":
		return 1 << 63, true
	}
	m := reFP.FindStringSubmatch(s)
	if m == nil {
		return 0, false
	}
	sign, _ := strconv.ParseUint(m[1], 2, 64)
	exp, _ := strconv.ParseUint(m[2], 2, 64)
	man, _ := strconv.ParseUint(m[3], 16, 64)
	return sign<<63 | exp<<52 | man, true
}

func fpLit(bits uint64) string {
	f := math.Float64frombits(bits)
	if math.IsNaN(f) {
		return "(_ NaN 11 53)"
	}
	return fmt.Sprintf("(fp #b%01b #b%011b #x%013x)", bits>>63, (bits>>52)&0x7ff, bits&((1<<52)-1))
}

// build evaluates all collected argument terms with the solver and fills the tables; returns the SMT definitions.
func (or *Oracle) build(prelude, dir string) (string, error) {
	type item struct {
		fn  string
		arg string
	}
	var items []item
	for _, n := range []int{13, 15} {
		as := make([]string, 0, len(or.PowArgs[n]))
		for a := range or.PowArgs[n] {
			as = append(as, a)
		}
		sort.Strings(as)
		for _, a := range as {
			items = append(items, item{fmt.Sprintf("pow%d", n), a})
		}
	}
	fas := make([]string, 0, len(or.FmtArgs))
	for a := range or.FmtArgs {
		fas = append(fas, a)
	}
	sort.Strings(fas)
	for _, a := range fas {
		items = append(items, item{"fmt_f64", a})
	}
	if len(items) > 0 {
		var sb strings.Builder
		sb.WriteString(prelude)
		for _, it := range items {
			sb.WriteString("(simplify " + it.arg + ")\n")
		}
		f, err := os.CreateTemp(dir, "oracle-*.smt2")
		if err != nil {
			return "", err
		}
		f.WriteString(sb.String())
		f.Close()
		defer os.Remove(f.Name())
		var out bytes.Buffer
		cmd := exec.Command("z3-new", "-smt2", f.Name())
		cmd.Stdout = &out
		cmd.Stderr = &out
		_ = cmd.Run()
		lines := strings.Split(strings.TrimSpace(out.String()), "\n")
		if len(lines) != len(items) {
			return "", fmt.Errorf("oracle pass 1: %d answers for %d terms: %.300s", len(lines), len(items), out.String())
		}
		for i, it := range items {
			bits, ok := parseFPLit(lines[i])
			if !ok {
				continue // non-ground argument: stays outside the table (obligation will be undecided)
			}
			x := math.Float64frombits(bits)
			switch it.fn {
			case "pow13":
				or.PowTab[13][bits] = math.Float64bits(math.Pow(x, 13))
			case "pow15":
				or.PowTab[15][bits] = math.Float64bits(math.Pow(x, 15))
			default:
				or.FmtTab[bits] = strconv.FormatFloat(x, 'f', -1, 64)
			}
		}
	}
	var sb strings.Builder
	sb.WriteString("; ---- instance-validated oracle tables (math.Pow, strconv.FormatFloat): values produced by the real functions in this run ----\n")
	for _, n := range []int{13, 15} {
		keys := make([]uint64, 0, len(or.PowTab[n]))
		for k := range or.PowTab[n] {
			keys = append(keys, k)
		}
		sort.Slice(keys, func(i, j int) bool { return keys[i] < keys[j] })
		fmt.Fprintf(&sb, "(define-fun pow%d ((x F64)) F64 ", n)
		for _, k := range keys {
			fmt.Fprintf(&sb, "(ite (= x %s) %s ", fpLit(k), fpLit(or.PowTab[n][k]))
		}
		sb.WriteString("(_ NaN 11 53)" + strings.Repeat(")", len(keys)) + ")\n")
		// sanity: |v - x^n| <= 2^-40 |x^n| in exact arithmetic
		for _, k := range keys {
			xr := new(big.Rat).SetFloat64(math.Float64frombits(k))
			vr := new(big.Rat).SetFloat64(math.Float64frombits(or.PowTab[n][k]))
			if xr == nil || vr == nil {
				or.Sanity = append(or.Sanity, &Oblig{Name: fmt.Sprintf("oracle#pow%d(%x)", n, k), Kind: "oracle", Goal: tFalse, Note: "non-finite value"})
				continue
			}
			p := new(big.Rat).SetInt64(1)
			for i := 0; i < n; i++ {
				p.Mul(p, xr)
			}
			g := fmt.Sprintf("(let ((p %s) (v %s)) (and (<= (- v p) (* %s (ite (>= p 0.0) p (- p)))) (<= (- p v) (* %s (ite (>= p 0.0) p (- p))))))", mkRealRat(p).S, mkRealRat(vr).S, "(/ 1.0 1099511627776.0)", "(/ 1.0 1099511627776.0)")
			or.Sanity = append(or.Sanity, &Oblig{Name: fmt.Sprintf("oracle#pow%d(%x)", n, k), Kind: "oracle", Goal: Term{S: g, Sort: SBool}, Labels: []string{"oracle"}})
		}
	}
	{
		keys := make([]uint64, 0, len(or.FmtTab))
		for k := range or.FmtTab {
			keys = append(keys, k)
		}
		sort.Slice(keys, func(i, j int) bool { return keys[i] < keys[j] })
		sb.WriteString("(define-fun fmt_f64 ((x F64)) String ")
		for _, k := range keys {
			fmt.Fprintf(&sb, "(ite (= x %s) %s ", fpLit(k), smtStringLit(or.FmtTab[k]))
		}
		sb.WriteString("\"?\"" + strings.Repeat(")", len(keys)) + ")\n")
	}
	return sb.String(), nil
}
