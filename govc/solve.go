package main

// SMT-LIB emission and the solver portfolio.

import (
	"bytes"
	"context"
	"fmt"
	"os"
	"os/exec"
	"path/filepath"
	"strings"
	"sync"
	"sync/atomic"
	"time"
)

type SolverSpec struct {
	Name  string
	Bin   string
	Args  func(timeoutMs int) []string
	Logic bool
}

var solvers = map[string]*SolverSpec{
	"z3-new": {Name: "z3-new 5.1.0", Bin: "z3-new", Args: func(t int) []string { return []string{"-smt2", fmt.Sprintf("-t:%d", t)} }},
	"z3":     {Name: "z3 4.8.12", Bin: "z3", Args: func(t int) []string { return []string{"-smt2", fmt.Sprintf("-t:%d", t)} }},
	"cvc5": {Name: "cvc5 1.0.3", Bin: "cvc5", Args: func(t int) []string {
		return []string{"--lang", "smt2", "--incremental", fmt.Sprintf("--tlimit-per=%d", t), "--strings-exp", "--fp-exp"}
	}, Logic: true},
}

type SolveStats struct {
	mu        sync.Mutex
	BySolver  map[string]int
	MillisBy  map[string]int64
	Processes int64
}

func newStats() *SolveStats {
	return &SolveStats{BySolver: map[string]int{}, MillisBy: map[string]int64{}}
}

func declsText(cs ...*Ctx) string {
	var sb strings.Builder
	seen := map[string]string{}
	for _, c := range cs {
		if c == nil {
			continue
		}
		for _, n := range c.DeclOrder {
			s := c.Decls[n]
			if prev, ok := seen[n]; ok {
				if prev != s {
					fmt.Fprintf(&sb, "; WARNING conflicting sorts for %s: %s / %s\n", n, prev, s)
				}
				continue
			}
			seen[n] = s
			fmt.Fprintf(&sb, "(declare-const %s %s)\n", n, smtSort(s))
		}
	}
	return sb.String()
}

func obligText(o *Oblig, withModel bool) string {
	var sb strings.Builder
	sb.WriteString("(push 1)\n")
	for _, a := range o.Assumes {
		sb.WriteString("(assert ")
		sb.WriteString(a.S)
		sb.WriteString(")\n")
	}
	sb.WriteString("(assert (not ")
	sb.WriteString(o.Goal.S)
	sb.WriteString("))\n(check-sat)\n")
	if withModel {
		sb.WriteString("(get-model)\n")
	}
	sb.WriteString("(pop 1)\n")
	return sb.String()
}

func header(sv *SolverSpec, models bool) string {
	var sb strings.Builder
	if models {
		sb.WriteString("(set-option :produce-models true)\n")
	}
	if sv.Logic {
		sb.WriteString("(set-logic ALL)\n")
	}
	return sb.String()
}

// runBatch runs one solver process on a list of obligations sharing declarations; fills Result/Solver/Millis.
func runBatch(ctx context.Context, sv *SolverSpec, prelude, decls string, obs []*Oblig, timeoutMs int, dir string, stats *SolveStats) {
	var sb strings.Builder
	sb.WriteString(header(sv, false))
	sb.WriteString(prelude)
	sb.WriteString(decls)
	sb.WriteString(templateDefs(obs))
	for i, o := range obs {
		fmt.Fprintf(&sb, "(echo \"@@%d\")\n", i)
		sb.WriteString(obligText(o, false))
	}
	sb.WriteString("(echo \"@@end\")\n")
	f, err := os.CreateTemp(dir, "batch-*.smt2")
	if err != nil {
		for _, o := range obs {
			o.Result = "error"
			o.Note = err.Error()
		}
		return
	}
	f.WriteString(sb.String())
	f.Close()
	defer os.Remove(f.Name())
	start := time.Now()
	// hard wall limit for the whole batch: generous per obligation, but a wedged query cannot block the run
	total := time.Duration(len(obs))*60*time.Millisecond + time.Duration(timeoutMs)*time.Millisecond + 10*time.Second
	cctx, cancel := context.WithTimeout(ctx, total)
	defer cancel()
	cmd := exec.CommandContext(cctx, sv.Bin, append(sv.Args(timeoutMs), f.Name())...)
	var out bytes.Buffer
	cmd.Stdout = &out
	cmd.Stderr = &out
	_ = cmd.Run()
	atomic.AddInt64(&stats.Processes, 1)
	el := time.Since(start).Milliseconds()
	// parse
	cur := -1
	answers := make([]string, len(obs))
	notes := make([]string, len(obs))
	for _, ln := range strings.Split(out.String(), "\n") {
		ln = strings.TrimSpace(ln)
		if ln == "" {
			continue
		}
		if strings.HasPrefix(ln, "@@") || strings.HasPrefix(ln, "\"@@") {
			id := strings.Trim(ln, "\"@")
			if id == "end" {
				cur = -1
				continue
			}
			fmt.Sscanf(id, "%d", &cur)
			continue
		}
		if cur < 0 || cur >= len(obs) {
			continue
		}
		switch ln {
		case "sat", "unsat", "unknown", "timeout":
			if answers[cur] == "" {
				answers[cur] = ln
			}
		default:
			if strings.Contains(ln, "error") && len(notes[cur]) < 400 {
				notes[cur] += ln + " "
			}
		}
	}
	stats.mu.Lock()
	stats.MillisBy[sv.Name] += el
	stats.mu.Unlock()
	per := el / int64(len(obs)+1)
	for i, o := range obs {
		a := answers[i]
		if a == "" {
			a = "noanswer"
			if notes[i] != "" {
				a = "error"
			}
		}
		o.Result = a
		o.Solver = sv.Name
		o.Millis = per
		if notes[i] != "" {
			o.Note = strings.TrimSpace(o.Note + " " + notes[i])
		}
		stats.mu.Lock()
		stats.BySolver[sv.Name]++
		stats.mu.Unlock()
	}
}

// solveOne re-runs a single obligation on a solver, with model output.
func solveOne(ctx context.Context, sv *SolverSpec, prelude string, o *Oblig, timeoutMs int, dir string, stats *SolveStats) (string, string) {
	var sb strings.Builder
	sb.WriteString(header(sv, true))
	sb.WriteString(prelude)
	sb.WriteString(declsText(o.Decls))
	sb.WriteString(templateDefs([]*Oblig{o}))
	sb.WriteString(obligText(o, true))
	f, err := os.CreateTemp(dir, "one-*.smt2")
	if err != nil {
		return "error", err.Error()
	}
	f.WriteString(sb.String())
	f.Close()
	defer os.Remove(f.Name())
	cctx, cancel := context.WithTimeout(ctx, time.Duration(timeoutMs)*time.Millisecond+10*time.Second)
	defer cancel()
	start := time.Now()
	cmd := exec.CommandContext(cctx, sv.Bin, append(sv.Args(timeoutMs), f.Name())...)
	var out bytes.Buffer
	cmd.Stdout = &out
	cmd.Stderr = &out
	_ = cmd.Run()
	atomic.AddInt64(&stats.Processes, 1)
	stats.mu.Lock()
	stats.MillisBy[sv.Name] += time.Since(start).Milliseconds()
	stats.BySolver[sv.Name]++
	stats.mu.Unlock()
	text := out.String()
	first := ""
	for _, ln := range strings.Split(text, "\n") {
		ln = strings.TrimSpace(ln)
		if ln == "sat" || ln == "unsat" || ln == "unknown" || ln == "timeout" {
			first = ln
			break
		}
	}
	if first == "" {
		first = "noanswer"
		if strings.Contains(text, "error") {
			first = "error"
		}
	}
	return first, text
}

type Discharger struct {
	Prelude      string
	Dir          string
	TimeoutMs    int
	Primary      []string // solver order
	Stats        *SolveStats
	Workers      int
	SecondGround string // if set, every ground-family instance is re-checked on this solver (independent Float64 implementation)
	KeepFailed   string // directory where failed obligations are written
	// failure budget: once this many obligations ended without a definite answer (timeout / unknown / no answer), or the
	// wall budget is used up while at least one obligation has failed, the remaining solver jobs are not started: the
	// check fails anyway, and a tree on which hundreds of queries time out would otherwise keep it busy for hours.
	// Never triggers while every obligation discharges.
	SlowBudget int
	WallBudget time.Duration
	slowFails  int64
	anyFail    int64
	started    time.Time
	Skipped    int64
}

func (d *Discharger) aborted() bool {
	if d.SlowBudget > 0 && atomic.LoadInt64(&d.slowFails) >= int64(d.SlowBudget) {
		return true
	}
	if d.WallBudget > 0 && atomic.LoadInt64(&d.anyFail) > 0 && time.Since(d.started) > d.WallBudget {
		return true
	}
	return false
}

func (d *Discharger) account(obs []*Oblig) {
	for _, o := range obs {
		if o.ok() || o.Result == "skipped" {
			continue
		}
		atomic.AddInt64(&d.anyFail, 1)
		if o.Result != "sat" && o.Result != "unsat" && o.Result != "disagree" {
			atomic.AddInt64(&d.slowFails, 1)
		}
	}
}

// mergeSameContext: heavy (quantified) obligations that share the very same assumptions (same path, same program point)
// are first tried as ONE query proving the conjunction of their goals; only if that does not succeed are they
// discharged one by one (which also localises a failure).
func (d *Discharger) mergeSameContext(groups [][]*Oblig) {
	type bucket struct {
		obs []*Oblig
	}
	isHeavy := func(o *Oblig) bool {
		if o.Template != nil || o.Kind == "cover" || o.Lite != nil {
			return false
		}
		for _, a := range o.Assumes {
			if strings.Contains(a.S, "(forall ") || strings.Contains(a.S, "(exists ") {
				return true
			}
		}
		return strings.Contains(o.Goal.S, "(forall ") || strings.Contains(o.Goal.S, "(exists ")
	}
	buckets := map[string]*bucket{}
	var order []string
	for _, g := range groups {
		for _, o := range g {
			if !isHeavy(o) || o.Decls == nil {
				continue
			}
			var sb strings.Builder
			fmt.Fprintf(&sb, "%p|%d|", o.Decls, len(o.Assumes))
			for _, a := range o.Assumes {
				sb.WriteString(a.S)
				sb.WriteByte('|')
			}
			k := sb.String()
			if buckets[k] == nil {
				buckets[k] = &bucket{}
				order = append(order, k)
			}
			buckets[k].obs = append(buckets[k].obs, o)
		}
	}
	ctx := context.Background()
	var wg sync.WaitGroup
	sem := make(chan struct{}, d.Workers)
	for _, k := range order {
		b := buckets[k]
		if len(b.obs) < 2 {
			continue
		}
		wg.Add(1)
		sem <- struct{}{}
		go func(obs []*Oblig) {
			defer wg.Done()
			defer func() { <-sem }()
			var goals []Term
			for _, o := range obs {
				goals = append(goals, o.Goal)
			}
			m := &Oblig{Name: obs[0].Name + "#merged", Kind: obs[0].Kind, Assumes: obs[0].Assumes, Goal: tAnd(goals...), Decls: obs[0].Decls}
			r, _ := solveOne(ctx, solvers[d.Primary[0]], d.Prelude, m, 20000, d.Dir, d.Stats)
			if r == "unsat" {
				for _, o := range obs {
					o.Result = "unsat"
					o.Solver = solvers[d.Primary[0]].Name + fmt.Sprintf(" (conjunction of %d goals of one program point)", len(obs))
				}
			}
		}(b.obs)
	}
	wg.Wait()
}

// discharge runs all obligations (grouped in batches that share declarations) through the portfolio.
func (d *Discharger) discharge(groups [][]*Oblig) {
	d.mergeSameContext(groups)
	type job struct {
		obs   []*Oblig
		decls string
		heavy bool
	}
	var jobs []job
	const chunk = 400
	for _, g := range groups {
		if len(g) == 0 {
			continue
		}
		// declarations: union over the contexts in the group
		seen := map[*Ctx]bool{}
		var cs []*Ctx
		for _, o := range g {
			if o.Decls != nil && !seen[o.Decls] {
				seen[o.Decls] = true
				cs = append(cs, o.Decls)
			}
		}
		decls := declsText(cs...)
		if strings.Contains(decls, "WARNING conflicting") {
			// fall back to one job per context
			byCtx := map[*Ctx][]*Oblig{}
			for _, o := range g {
				byCtx[o.Decls] = append(byCtx[o.Decls], o)
			}
			for c, obs := range byCtx {
				jobs = append(jobs, job{obs, declsText(c), false})
			}
			continue
		}
		// quantified obligations get a solver process of their own (a slow one must not starve the others)
		var light []*Oblig
		for _, o := range g {
			if o.Result == "unsat" && o.Solver != "" && o.Kind != "cover" {
				continue // already discharged as part of a merged query
			}
			heavy := strings.Contains(o.Goal.S, "(forall ") || strings.Contains(o.Goal.S, "(exists ") || strings.Contains(o.Goal.S, "wf_v") || strings.Contains(o.Goal.S, "(str.++ ")
			if !heavy {
				for _, a := range o.Assumes {
					if strings.Contains(a.S, "(forall ") || strings.Contains(a.S, "(exists ") {
						heavy = true
						break
					}
				}
			}
			if heavy && o.Template == nil {
				jobs = append(jobs, job{[]*Oblig{o}, decls, true})
			} else {
				light = append(light, o)
			}
		}
		for i := 0; i < len(light); i += chunk {
			j := i + chunk
			if j > len(light) {
				j = len(light)
			}
			jobs = append(jobs, job{light[i:j], decls, false})
		}
	}
	ctx := context.Background()
	var wg sync.WaitGroup
	sem := make(chan struct{}, d.Workers)
	if d.started.IsZero() {
		d.started = time.Now()
	}
	// fast path: floating-point-free strengthenings (assumptions without FP atoms, goal = negated guard)
	for ji := range jobs {
		var lites, origs []*Oblig
		for _, o := range jobs[ji].obs {
			if o.Lite == nil {
				continue
			}
			l := &Oblig{Name: o.Name + "#lite", Kind: o.Kind, Goal: *o.Lite, Decls: o.Decls}
			for _, a := range o.Assumes {
				if !strings.Contains(a.S, "fp.") && !strings.Contains(a.S, "pow1") {
					l.Assumes = append(l.Assumes, a)
				}
			}
			lites = append(lites, l)
			origs = append(origs, o)
		}
		if len(lites) == 0 {
			continue
		}
		runBatch(ctx, solvers[d.Primary[0]], d.Prelude, jobs[ji].decls, lites, 5000, d.Dir, d.Stats)
		done := map[*Oblig]bool{}
		for i, l := range lites {
			if l.Result == "unsat" {
				origs[i].Result = "unsat"
				origs[i].Solver = l.Solver + " (FP-free strengthening)"
				origs[i].Millis = l.Millis
				done[origs[i]] = true
			}
		}
		var rest []*Oblig
		for _, o := range jobs[ji].obs {
			if !done[o] {
				rest = append(rest, o)
			}
		}
		jobs[ji].obs = rest
	}
	for _, jb := range jobs {
		if len(jb.obs) == 0 {
			continue
		}
		wg.Add(1)
		sem <- struct{}{}
		go func(jb job) {
			defer wg.Done()
			defer func() { <-sem }()
			if d.aborted() {
				for _, o := range jb.obs {
					o.Result, o.Solver, o.Note = "skipped", "", "not attempted: the failure budget of this run was used up by other obligations"
					atomic.AddInt64(&d.Skipped, 1)
				}
				return
			}
			defer d.account(jb.obs)
			if jb.heavy && len(jb.obs) == 1 {
				// quick attempt on the primary solver, then the whole portfolio concurrently
				o := jb.obs[0]
				r, text := solveOne(ctx, solvers[d.Primary[0]], d.Prelude, o, 4000, d.Dir, d.Stats)
				if r == "unsat" || r == "sat" {
					o.Result, o.Solver = r, solvers[d.Primary[0]].Name
					if r == "sat" {
						o.Model = text
					}
					if o.ok() {
						return
					}
				}
				d.race(ctx, o)
				return
			}
			runBatch(ctx, solvers[d.Primary[0]], d.Prelude, jb.decls, jb.obs, d.TimeoutMs, d.Dir, d.Stats)
			if d.SecondGround != "" && len(jb.obs) > 0 && jb.obs[0].Template != nil {
				// independent Float64 implementation must agree
				cp := make([]*Oblig, len(jb.obs))
				for i, o := range jb.obs {
					c := *o
					cp[i] = &c
				}
				runBatch(ctx, solvers[d.SecondGround], d.Prelude, jb.decls, cp, d.TimeoutMs, d.Dir, d.Stats)
				for i, o := range jb.obs {
					if o.Kind == "cover" {
						continue
					}
					if o.Result == "unsat" && cp[i].Result != "unsat" {
						o.Result = "disagree"
						o.Note = fmt.Sprintf("%s: unsat, %s: %s", o.Solver, cp[i].Solver, cp[i].Result)
					} else if o.Result == "unsat" {
						o.Solver += " + " + cp[i].Solver
					}
				}
			}
		}(jb)
	}
	wg.Wait()
	// second chance for everything not decided as expected
	var retry []*Oblig
	for _, g := range groups {
		for _, o := range g {
			if !o.ok() && o.Result != "skipped" {
				retry = append(retry, o)
			}
		}
	}
	if len(retry) > 24 {
		// many failures: individual re-runs of a sample only (the rest keep the batch verdict)
		retry = retry[:24]
	}
	for _, o := range retry {
		wg.Add(1)
		sem <- struct{}{}
		go func(o *Oblig) {
			defer wg.Done()
			defer func() { <-sem }()
			if o.Result == "disagree" || d.aborted() {
				return
			}
			t := d.TimeoutMs
			if o.Result != "sat" {
				t *= 2 // no definite answer the first time (possibly a loaded machine): the other jobs are finished now
			}
			d.raceT(ctx, o, t)
		}(o)
	}
	wg.Wait()
	if d.KeepFailed != "" {
		for _, g := range groups {
			for _, o := range g {
				if !o.ok() {
					os.MkdirAll(d.KeepFailed, 0o755)
					fn := filepath.Join(d.KeepFailed, sanitize(o.Name)+".smt2")
					os.WriteFile(fn, []byte(header(solvers[d.Primary[0]], true)+d.Prelude+declsText(o.Decls)+templateDefs([]*Oblig{o})+obligText(o, true)), 0o644)
				}
			}
		}
	}
}

// ok: proof obligations must be unsat; cover obligations (vacuity guards) must be sat.
func (o *Oblig) ok() bool {
	if o.Kind == "cover" {
		return o.Result == "sat" || o.Result == "unknown"
	}
	return o.Result == "unsat"
}

func templateDefs(obs []*Oblig) string {
	seen := map[*FamTemplate]bool{}
	var sb strings.Builder
	for _, o := range obs {
		if o.Template != nil && !seen[o.Template] {
			seen[o.Template] = true
			sb.WriteString(o.Template.defText())
		}
	}
	return sb.String()
}

// race runs one obligation on all solvers of the portfolio concurrently; the first definite answer wins.
func (d *Discharger) race(ctx context.Context, o *Oblig) { d.raceT(ctx, o, d.TimeoutMs) }

func (d *Discharger) raceT(ctx context.Context, o *Oblig, timeoutMs int) {
	type ans struct {
		solver string
		r      string
		text   string
	}
	cctx, cancel := context.WithCancel(ctx)
	defer cancel()
	ch := make(chan ans, len(d.Primary))
	for _, sn := range d.Primary {
		go func(sn string) {
			r, text := solveOne(cctx, solvers[sn], d.Prelude, o, timeoutMs, d.Dir, d.Stats)
			ch <- ans{sn, r, text}
		}(sn)
	}
	var last ans
	for range d.Primary {
		a := <-ch
		if a.r == "unsat" || a.r == "sat" {
			// a cover obligation wants sat, a proof obligation wants unsat; a definite answer ends the race
			o.Result = a.r
			o.Solver = solvers[a.solver].Name
			if a.r == "sat" {
				o.Model = a.text
			}
			return
		}
		if last.r == "" || last.r == "noanswer" || last.r == "error" {
			last = a
		}
	}
	o.Result = last.r
	o.Solver = solvers[last.solver].Name + " (+ others, no definite answer)"
	if len(last.text) < 2000 {
		o.Note = strings.TrimSpace(last.text)
	} else {
		o.Note = strings.TrimSpace(last.text[:2000])
	}
}
