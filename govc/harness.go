package main

// Replay harness: an in-package Go test injected with `go test -overlay` (nothing is written under the repository).
// It executes a list of requests (JSON lines) against the real code and prints one JSON answer per request.

import (
	"bytes"
	"context"
	"encoding/json"
	"fmt"
	"os"
	"os/exec"
	"path/filepath"
	"strings"
	"time"
)

const harnessCommon = `
import (
	"encoding/json"
	"fmt"
	"math"
	"os"
	"bufio"
	"reflect"
	"testing"
)

type vrReq struct {
	Op     string         ` + "`json:\"op\"`" + `
	Level  string         ` + "`json:\"level\"`" + `
	Set    map[string]int ` + "`json:\"set\"`" + `
	Vector string         ` + "`json:\"vector\"`" + `
	K      int            ` + "`json:\"k\"`" + `
	NegZero bool          ` + "`json:\"negzero\"`" + `
	Stage  string         ` + "`json:\"stage\"`" + `
	Suffix string         ` + "`json:\"suffix\"`" + `
	Args   []string       ` + "`json:\"args\"`" + `
}

type vrAns struct {
	Ok       bool     ` + "`json:\"ok\"`" + `
	Note     string   ` + "`json:\"note,omitempty\"`" + `
	Panic    string   ` + "`json:\"panic,omitempty\"`" + `
	Vector   string   ` + "`json:\"vector,omitempty\"`" + `
	Err      string   ` + "`json:\"err,omitempty\"`" + `
	Base     float64  ` + "`json:\"base\"`" + `
	Temporal float64  ` + "`json:\"temporal\"`" + `
	Env      float64  ` + "`json:\"env\"`" + `
	BaseBits uint64   ` + "`json:\"base_bits\"`" + `
	TempBits uint64   ` + "`json:\"temporal_bits\"`" + `
	EnvBits  uint64   ` + "`json:\"env_bits\"`" + `
	Sev      []string ` + "`json:\"severity,omitempty\"`" + `
	Enc      string   ` + "`json:\"encode,omitempty\"`" + `
	Out      []string ` + "`json:\"out,omitempty\"`" + `
}

func vrSet(obj interface{}, set map[string]int) {
	v := reflect.ValueOf(obj).Elem()
	for name, val := range set {
		f := v.FieldByName(name)
		if f.IsValid() && f.CanSet() {
			f.SetInt(int64(val))
		}
	}
}

func TestVerifReplay(t *testing.T) {
	f, err := os.Open(os.Getenv("VERIF_REPLAY_REQ"))
	if err != nil {
		t.Skip("no request file")
	}
	defer f.Close()
	sc := bufio.NewScanner(f)
	sc.Buffer(make([]byte, 1<<20), 1<<26)
	for sc.Scan() {
		var rq vrReq
		if err := json.Unmarshal(sc.Bytes(), &rq); err != nil {
			continue
		}
		ans := vrAns{}
		func() {
			defer func() {
				if r := recover(); r != nil {
					ans.Panic = fmt.Sprint(r)
				}
			}()
			vrDo(&rq, &ans)
		}()
		b, _ := json.Marshal(ans)
		fmt.Println("REPLAY " + string(b))
	}
}

var _ = math.Float64bits
`

const harnessV3 = `package metric
` + harnessCommon + `
func vrFill(em *Environmental, ans *vrAns) {
	ans.Base, ans.Temporal, ans.Env = em.Base.Score(), em.Temporal.Score(), em.Score()
	ans.BaseBits, ans.TempBits, ans.EnvBits = math.Float64bits(ans.Base), math.Float64bits(ans.Temporal), math.Float64bits(ans.Env)
	ans.Sev = []string{em.Base.Severity().String(), em.Temporal.Severity().String(), em.Severity().String()}
	ans.Enc, _ = em.Encode()
	if e := em.GetError(); e != nil {
		ans.Err = e.Error()
	}
	ans.Ok = true
}

func vrEachBase(em *Environmental, f func() bool) bool {
	for ver := 1; ver <= 2; ver++ {
		for av := 1; av <= 4; av++ {
			for ac := 1; ac <= 2; ac++ {
				for pr := 1; pr <= 3; pr++ {
					for ui := 1; ui <= 2; ui++ {
						for s := 1; s <= 2; s++ {
							for c := 1; c <= 3; c++ {
								for i := 1; i <= 3; i++ {
									for a := 1; a <= 3; a++ {
										em.Ver, em.AV, em.AC, em.PR, em.UI, em.S, em.C, em.I, em.A = Version(ver), AttackVector(av), AttackComplexity(ac), PrivilegesRequired(pr), UserInteraction(ui), Scope(s), ConfidentialityImpact(c), IntegrityImpact(i), AvailabilityImpact(a)
										if f() {
											return true
										}
									}
								}
							}
						}
					}
				}
			}
		}
	}
	return false
}

func vrDo(rq *vrReq, ans *vrAns) {
	em := NewEnvironmental()
	switch rq.Op {
	case "fields":
		vrSet(em, rq.Set)
		vrSet(em.Temporal, rq.Set)
		vrSet(em.Base, rq.Set)
		vrFill(em, ans)
	case "find_base": // a base vector whose base score is k/10, then set the remaining fields
		want := float64(rq.K) / 10
		if vrEachBase(em, func() bool { return em.Base.Score() == want }) {
			vrSet(em, rq.Set)
			vrSet(em.Temporal, rq.Set)
			vrFill(em, ans)
		} else {
			ans.Note = "no base vector has this base score"
		}
	case "find_env_inner": // an environmental object (temporal metrics Not Defined) whose environmental score is k/10
		want := float64(rq.K) / 10
		if vrEachBase(em, func() bool { return em.Score() == want }) {
			vrSet(em, rq.Set)
			vrSet(em.Temporal, rq.Set)
			vrFill(em, ans)
		} else {
			ans.Note = "no vector has this inner environmental score"
		}
	case "views": // Args[0] = base part, Args[1] = base+temporal part of rq.Vector
		e, err := NewEnvironmental().Decode(rq.Vector)
		b, err1 := NewBase().Decode(rq.Args[0])
		tm, err2 := NewTemporal().Decode(rq.Args[1])
		if err != nil || err1 != nil || err2 != nil {
			ans.Err = fmt.Sprint(err, err1, err2)
			ans.Ok = true
			return
		}
		eb, et, tb := e.BaseMetrics(), e.TemporalMetrics(), tm.BaseMetrics()
		ans.Out = []string{
			"base score through the environmental object", fmt.Sprint(eb.Score()), fmt.Sprint(b.Score()),
			"base severity through the environmental object", fmt.Sprint(eb.Severity()), fmt.Sprint(b.Severity()),
			"base encoding through the environmental object", eb.String(), b.String(),
			"base score through the temporal object", fmt.Sprint(tb.Score()), fmt.Sprint(b.Score()),
			"base severity through the temporal object", fmt.Sprint(tb.Severity()), fmt.Sprint(b.Severity()),
			"base encoding through the temporal object", tb.String(), b.String(),
			"temporal score through the environmental object", fmt.Sprint(et.Score()), fmt.Sprint(tm.Score()),
			"temporal severity through the environmental object", fmt.Sprint(et.Severity()), fmt.Sprint(tm.Severity()),
			"temporal encoding through the environmental object", et.String(), tm.String(),
			"base score through the environmental object's temporal view", fmt.Sprint(et.BaseMetrics().Score()), fmt.Sprint(b.Score()),
		}
		ans.Ok = true
	case "decode":
		var err error
		switch rq.Level {
		case "base":
			var b *Base
			b, err = NewBase().Decode(rq.Vector)
			if b != nil {
				em.Temporal.Base = b
				em.Base = b
			}
		case "temporal":
			var tm *Temporal
			tm, err = NewTemporal().Decode(rq.Vector)
			if tm != nil {
				em.Temporal = tm
			}
		default:
			var e2 *Environmental
			e2, err = NewEnvironmental().Decode(rq.Vector)
			if e2 != nil {
				em = e2
			}
		}
		if err != nil {
			ans.Err = err.Error()
			ans.Ok = true
			return
		}
		vrFill(em, ans)
	}
}
`

const harnessV2 = `package metric
` + harnessCommon + `
var vrAV = []string{"L", "A", "N"}
var vrAC = []string{"H", "M", "L"}
var vrAu = []string{"M", "S", "N"}
var vrCIA = []string{"N", "P", "C"}
var vrReqs = []string{"L", "M", "H", "ND"}
var vrE = []string{"U", "POC", "F", "H", "ND"}
var vrRL = []string{"OF", "TF", "W", "U", "ND"}
var vrRC = []string{"UC", "UR", "C", "ND"}

func vrFill(m *Environmental, v string, ans *vrAns) {
	ans.Vector = v
	ans.Base, ans.Temporal, ans.Env = m.Base.Score(), m.Temporal.Score(), m.Score()
	ans.BaseBits, ans.TempBits, ans.EnvBits = math.Float64bits(ans.Base), math.Float64bits(ans.Temporal), math.Float64bits(ans.Env)
	ans.Sev = []string{m.Base.Severity().String(), m.Temporal.Severity().String(), m.Severity().String()}
	ans.Enc, _ = m.Encode()
	ans.Ok = true
}

func vrEachBase(f func(v string) bool) bool {
	for _, av := range vrAV {
		for _, ac := range vrAC {
			for _, au := range vrAu {
				for _, c := range vrCIA {
					for _, i := range vrCIA {
						for _, a := range vrCIA {
							if f("AV:" + av + "/AC:" + ac + "/Au:" + au + "/C:" + c + "/I:" + i + "/A:" + a) {
								return true
							}
						}
					}
				}
			}
		}
	}
	return false
}

func vrMatch(x float64, k int, negzero bool) bool {
	if k == 0 {
		return x == 0 && math.Signbit(x) == negzero
	}
	return x == float64(k)/10
}

func vrDo(rq *vrReq, ans *vrAns) {
	switch rq.Op {
	case "views": // Args[0] = base part, Args[1] = base+temporal part of rq.Vector
		e, err := NewEnvironmental().Decode(rq.Vector)
		b, err1 := NewBase().Decode(rq.Args[0])
		tm, err2 := NewTemporal().Decode(rq.Args[1])
		if err != nil || err1 != nil || err2 != nil {
			ans.Err = fmt.Sprint(err, err1, err2)
			ans.Ok = true
			return
		}
		eb, et, tb := e.BaseMetrics(), e.TemporalMetrics(), tm.BaseMetrics()
		ans.Out = []string{
			"base score through the environmental object", fmt.Sprint(eb.Score()), fmt.Sprint(b.Score()),
			"base severity through the environmental object", fmt.Sprint(eb.Severity()), fmt.Sprint(b.Severity()),
			"base encoding through the environmental object", eb.String(), b.String(),
			"base score through the temporal object", fmt.Sprint(tb.Score()), fmt.Sprint(b.Score()),
			"base severity through the temporal object", fmt.Sprint(tb.Severity()), fmt.Sprint(b.Severity()),
			"base encoding through the temporal object", tb.String(), b.String(),
			"temporal score through the environmental object", fmt.Sprint(et.Score()), fmt.Sprint(tm.Score()),
			"temporal severity through the environmental object", fmt.Sprint(et.Severity()), fmt.Sprint(tm.Severity()),
			"temporal encoding through the environmental object", et.String(), tm.String(),
			"base score through the environmental object's temporal view", fmt.Sprint(et.BaseMetrics().Score()), fmt.Sprint(b.Score()),
		}
		ans.Ok = true
	case "decode":
		m, err := NewEnvironmental().Decode(rq.Vector)
		if err != nil {
			ans.Err = err.Error()
			ans.Ok = true
			return
		}
		vrFill(m, rq.Vector, ans)
	case "find":
		// stage "base": base score == k/10 ; "adjbase": adjusted base score == k/10 (env group with CDP:ND/TD:ND, no temporal) ;
		// "adjtemp": adjusted temporal score == k/10 (env group with CDP:ND/TD:ND, with temporal group).
		// Reachable values are tabulated once per run (first vector reaching each value); the adjusted temporal score depends
		// on the adjusted base score only through its value, so one representative per adjusted base value suffices.
		vrBuildTables()
		key := fmt.Sprintf("%d/%v", rq.K, rq.NegZero)
		found := ""
		switch rq.Stage {
		case "base":
			found = vrBaseTab[key]
		case "adjbase":
			found = vrAdjBaseTab[key]
		case "adjtemp":
			found = vrAdjTempTab[key]
		}
		if found == "" {
			ans.Note = "no vector reaches this intermediate score"
			return
		}
		// suffix template: {T} temporal group placeholder is part of the request's Suffix; "|" separates base part and requirement part
		parts := append(splitBar(found), "")
		v := parts[0] + replaceReq(rq.Suffix, parts[1])
		m, err := NewEnvironmental().Decode(v)
		if err != nil {
			ans.Note = "constructed vector rejected: " + v + ": " + err.Error()
			return
		}
		vrFill(m, v, ans)
	}
}

var vrBaseTab, vrAdjBaseTab, vrAdjTempTab map[string]string

func vrKey(x float64) string {
	k := int(math.Round(x * 10))
	return fmt.Sprintf("%d/%v", k, x == 0 && math.Signbit(x))
}

func vrBuildTables() {
	if vrBaseTab != nil {
		return
	}
	vrBaseTab, vrAdjBaseTab, vrAdjTempTab = map[string]string{}, map[string]string{}, map[string]string{}
	vrEachBase(func(v string) bool {
		if m, err := NewEnvironmental().Decode(v); err == nil {
			if _, ok := vrBaseTab[vrKey(m.Base.Score())]; !ok {
				vrBaseTab[vrKey(m.Base.Score())] = v
			}
		}
		for _, cr := range vrReqs {
			for _, ir := range vrReqs {
				for _, ar := range vrReqs {
					req := "/CR:" + cr + "/IR:" + ir + "/AR:" + ar
					m, err := NewEnvironmental().Decode(v + "/CDP:ND/TD:ND" + req)
					if err != nil {
						continue
					}
					k := vrKey(m.Score())
					if _, ok := vrAdjBaseTab[k]; !ok {
						vrAdjBaseTab[k] = v + "|" + req
					}
				}
			}
		}
		return false
	})
	for _, rep := range vrAdjBaseTab {
		parts := splitBar(rep)
		for _, e := range vrE {
			for _, rl := range vrRL {
				for _, rc := range vrRC {
					t := "/E:" + e + "/RL:" + rl + "/RC:" + rc
					m, err := NewEnvironmental().Decode(parts[0] + t + "/CDP:ND/TD:ND" + parts[1])
					if err != nil {
						continue
					}
					k := vrKey(m.Score())
					if _, ok := vrAdjTempTab[k]; !ok {
						vrAdjTempTab[k] = parts[0] + t + "|" + parts[1]
					}
				}
			}
		}
	}
}

func splitBar(s string) []string {
	for i := 0; i < len(s); i++ {
		if s[i] == '|' {
			return []string{s[:i], s[i+1:]}
		}
	}
	return []string{s}
}

// replaceReq substitutes "{REQ}" in the suffix by the found requirement group
func replaceReq(suffix, req string) string {
	out := ""
	for i := 0; i < len(suffix); i++ {
		if i+5 <= len(suffix) && suffix[i:i+5] == "{REQ}" {
			out += req
			i += 4
			continue
		}
		out += string(suffix[i])
	}
	return out
}
`

type HarnessAnswer struct {
	Ok       bool     `json:"ok"`
	Note     string   `json:"note"`
	Panic    string   `json:"panic"`
	Vector   string   `json:"vector"`
	Err      string   `json:"err"`
	Base     float64  `json:"base"`
	Temporal float64  `json:"temporal"`
	Env      float64  `json:"env"`
	BaseBits uint64   `json:"base_bits"`
	TempBits uint64   `json:"temporal_bits"`
	EnvBits  uint64   `json:"env_bits"`
	Sev      []string `json:"severity"`
	Enc      string   `json:"encode"`
	Out      []string `json:"out"`
}

// runHarness executes requests against the real code of package pkgDir ("v3/metric" or "v2/metric") of repo.
func runHarness(repo, pkgDir string, reqs []map[string]interface{}) ([]HarnessAnswer, string, error) {
	tmp, err := os.MkdirTemp("", "govc-replay-")
	if err != nil {
		return nil, "", err
	}
	defer os.RemoveAll(tmp)
	src := harnessV3
	if strings.HasPrefix(pkgDir, "v2/") {
		src = harnessV2
	}
	tf := filepath.Join(tmp, "zz_verif_replay_test.go")
	os.WriteFile(tf, []byte(src), 0o644)
	ov := map[string]map[string]string{"Replace": {filepath.Join(repo, pkgDir, "zz_verif_replay_test.go"): tf}}
	ovb, _ := json.Marshal(ov)
	ovf := filepath.Join(tmp, "overlay.json")
	os.WriteFile(ovf, ovb, 0o644)
	var rb bytes.Buffer
	for _, r := range reqs {
		b, _ := json.Marshal(r)
		rb.Write(b)
		rb.WriteByte('\n')
	}
	rf := filepath.Join(tmp, "req.jsonl")
	os.WriteFile(rf, rb.Bytes(), 0o644)
	ctx, cancel := context.WithTimeout(context.Background(), 300*time.Second)
	defer cancel()
	cmd := exec.CommandContext(ctx, "go", "test", "-overlay", ovf, "-vet=off", "-timeout", "240s", "-v", "-count=1", "-run", "^TestVerifReplay$", "./"+pkgDir)
	cmd.Dir = repo
	cmd.Env = append(os.Environ(), "GOFLAGS=-mod=mod", "GOPROXY=off", "GOSUMDB=off", "GOTOOLCHAIN=local", "VERIF_REPLAY_REQ="+rf, "GOCACHE="+filepath.Join(tmp, "gocache"))
	if gc := os.Getenv("GOCACHE"); gc != "" {
		cmd.Env = append(cmd.Env, "GOCACHE="+gc)
	} else {
		cmd.Env = cmd.Env[:len(cmd.Env)-1] // default build cache
	}
	var out bytes.Buffer
	cmd.Stdout = &out
	cmd.Stderr = &out
	runErr := cmd.Run()
	var answers []HarnessAnswer
	for _, ln := range strings.Split(out.String(), "\n") {
		if !strings.HasPrefix(ln, "REPLAY ") {
			continue
		}
		var a HarnessAnswer
		if json.Unmarshal([]byte(ln[7:]), &a) == nil {
			answers = append(answers, a)
		}
	}
	if len(answers) != len(reqs) {
		return answers, out.String(), fmt.Errorf("harness answered %d of %d requests (%v)", len(answers), len(reqs), runErr)
	}
	return answers, out.String(), nil
}
