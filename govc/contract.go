package main

// Contract files: /repo/<pkg>/zz_contracts*_verif.go, comment-only, //go:build verif.
// Every "//@" line belongs to the contract language.

import (
	"fmt"
	"go/ast"
	"go/parser"
	"go/token"
	"os"
	"path/filepath"
	"regexp"
	"sort"
	"strconv"
	"strings"
)

type Clause struct {
	Labels []string
	Expr   *Node
	Src    string
	Where  string
}

type SplitSpec struct {
	Guard *Node
	Exprs []*Node
	Src   string
}

type SplitCall struct {
	Callee string // function key suffix, e.g. "Base.Score"
	Ord    int
	Lo, Hi int
}

type CutSpec struct {
	Callee string
	Ord    int
	Label  string
	Spec   *Node // Int-valued spec expression: value === tenth(spec)
	Lo, Hi int
}

type FamItem struct {
	Expr *Node
	Dom  string // "v3.AV" (metric of spec tables) or "v3.VER"
}

type FamilySpec struct {
	Name     string
	Labels   []string
	Guard    *Node
	GuardSrc string
	Items    []FamItem
	// stop: stage-1 cut at the n-th dynamic call of Callee: value === tenth(Spec), Lo <= Spec <= Hi
	StopCallee string
	StopOrd    int
	StopSpec   *Node
	Judge      *Node // optional: what the final result of a replay must satisfy (stop families with early returns)
	// replace: the n-th dynamic call of Callee returns tenth(k), k in Lo..Hi, bound to ghost As
	ReplCallee string
	ReplOrd    int
	ReplAs     string
	ReplPM0    bool
	Lo, Hi     int
	Src        string
}

type ScenarioSpec struct {
	Name   string
	Labels []string
	Ghosts []BoundVar
	Assume *Node
	Binds  map[string]*Node
	Inline []string
	Recv   string // "" | "new" (receiver = result of the constructor New<Type>()) | "nil"
	Src    string
}

type CallGhost struct {
	Name   string
	Callee string
	Ord    int
	Res    int
	Fi     *FuncInfo
}

func (c *Contract) ghostSpec(name string) *CallGhost {
	for _, g := range c.CallGhosts {
		if g.Name == name {
			return g
		}
	}
	return nil
}

type LoopSpec struct {
	Index      string
	Invariants []*Clause
}

type Contract struct {
	Key          string
	Alias        string
	Header       string
	Recv         string
	Params       []string
	Results      []string
	Requires     []*Clause
	Ensures      []*Clause
	Modifies     []*Node
	ModNothing   bool
	HasMod       bool
	Splits       []*SplitSpec
	Families     []*FamilySpec
	Scenarios    []*ScenarioSpec
	CallGhosts   []*CallGhost
	SplitCalls   []*SplitCall
	Cuts         []*CutSpec
	Grid         *[2]int
	GridLabel    string
	Inline       bool
	Abstract     bool // the general contract is an abstraction; only the scenarios are executed on the body
	ThoroughOnly bool // expensive symbolic contract: thorough tier only
	Summary      bool // result as a term of the parameters, exported to the contract language as fn_<key>
	Trusted      bool
	Loops        map[int]*LoopSpec
	Where        string
}

type Pred struct {
	Name   string
	Alias  string
	Params []string
	Types  []string // Go type expressions
	Body   *Node
}

type Lemma struct {
	Vars   []string // ground family: variables ...
	Doms   []string // ... and their domains ("v3.AV", "int:0..100")
	Name   string
	Alias  string
	Labels []string
	Expr   *Node
	Split  []*Node
	Src    string
}

var clauseKW = map[string]bool{"pred": true, "lemma": true, "func": true, "requires": true, "ensures": true, "modifies": true,
	"split": true, "family": true, "scenario": true, "callghost": true, "splitcall": true, "cut": true, "grid": true, "inline": true, "trusted": true, "summary": true, "abstract": true, "thorough": true, "loop": true, "invariant": true}

var reLabels = regexp.MustCompile(`^\[([A-Za-z0-9_,\- ]+)\]`)

func (u *Universe) loadContracts() error {
	var files []string
	for _, p := range u.Pkgs {
		for _, f := range p.GoFiles {
			if m, _ := filepath.Match("zz_contracts*_verif.go", filepath.Base(f)); m {
				files = append(files, f)
			}
		}
	}
	sort.Strings(files)
	for _, f := range files {
		dir := filepath.Dir(f)
		alias := ""
		for a, p := range u.Pkgs {
			if len(p.GoFiles) > 0 && filepath.Dir(p.GoFiles[0]) == dir {
				alias = a
			}
		}
		data, err := os.ReadFile(f)
		if err != nil {
			return err
		}
		// hook integrity: guarded by the build tag and comment-only (no declarations)
		if !strings.HasPrefix(string(data), "//go:build verif\n") {
			u.problem("contract file %s is not guarded by '//go:build verif' on its first line", u.relFile(f))
		}
		if pf, perr := parser.ParseFile(token.NewFileSet(), f, data, 0); perr != nil || len(pf.Decls) != 0 {
			u.problem("contract file %s must be comment-only (it has declarations or does not parse)", u.relFile(f))
		}
		if err := u.parseContractFile(alias, u.relFile(f), string(data)); err != nil {
			return err
		}
	}
	return nil
}

type rawClause struct {
	kw   string
	text string
	line int
}

func (u *Universe) parseContractFile(alias, fname, text string) error {
	var raws []rawClause
	for i, ln := range strings.Split(text, "\n") {
		t := strings.TrimSpace(ln)
		if !strings.HasPrefix(t, "//@") {
			continue
		}
		body := strings.TrimSpace(t[3:])
		if body == "" || strings.HasPrefix(body, "//") {
			continue
		}
		if j := strings.Index(body, " // "); j >= 0 && !strings.Contains(body[:j], `"`) {
			body = strings.TrimSpace(body[:j])
		}
		first := body
		if j := strings.IndexAny(body, " \t[:"); j >= 0 {
			first = body[:j]
		}
		if clauseKW[first] {
			raws = append(raws, rawClause{kw: first, text: strings.TrimSpace(body[len(first):]), line: i + 1})
		} else if len(raws) > 0 {
			raws[len(raws)-1].text += " " + body
		} else {
			return fmt.Errorf("%s:%d: continuation without clause", fname, i+1)
		}
	}
	var cur *Contract
	var curLoop *LoopSpec
	for _, rc := range raws {
		where := fmt.Sprintf("%s:%d", fname, rc.line)
		fail := func(err error) error { return fmt.Errorf("%s: %s %s: %v", where, rc.kw, rc.text, err) }
		switch rc.kw {
		case "pred":
			i := strings.Index(rc.text, ":=")
			if i < 0 {
				return fail(fmt.Errorf("missing :="))
			}
			name, pnames, ptypes, err := parseHeaderParams(strings.TrimSpace(rc.text[:i]))
			if err != nil {
				return fail(err)
			}
			body, err := parseCExpr(rc.text[i+2:])
			if err != nil {
				return fail(err)
			}
			u.Preds[name] = &Pred{Name: name, Alias: alias, Params: pnames, Types: ptypes, Body: body}
			cur = nil
		case "lemma":
			i := strings.Index(rc.text, ":")
			if i < 0 {
				return fail(fmt.Errorf("missing ':'"))
			}
			head := strings.TrimSpace(rc.text[:i])
			lm := &Lemma{Alias: alias, Src: where}
			if j := strings.Index(head, " over "); j >= 0 {
				for _, it := range splitTopComma(head[j+6:]) {
					k := strings.LastIndex(it, " in ")
					if k < 0 {
						return fail(fmt.Errorf("lemma item %q: missing 'in DOMAIN'", it))
					}
					lm.Vars = append(lm.Vars, strings.TrimSpace(it[:k]))
					lm.Doms = append(lm.Doms, strings.TrimSpace(it[k+4:]))
				}
				head = strings.TrimSpace(head[:j])
			}
			if j := strings.Index(head, "["); j >= 0 {
				lm.Labels = splitList(strings.Trim(head[j:], "[]"))
				head = head[:j]
			}
			lm.Name = head
			e, err := parseCExpr(rc.text[i+1:])
			if err != nil {
				return fail(err)
			}
			lm.Expr = e
			u.Lemmas = append(u.Lemmas, lm)
			cur = nil
		case "func":
			c, err := parseFuncHeader(alias, "func "+rc.text)
			if err != nil {
				return fail(err)
			}
			c.Where = where
			if _, dup := u.Contracts[c.Key]; dup {
				return fail(fmt.Errorf("duplicate contract for %s", c.Key))
			}
			u.Contracts[c.Key] = c
			cur = c
			curLoop = nil
		default:
			if cur == nil {
				return fail(fmt.Errorf("clause outside func contract"))
			}
			switch rc.kw {
			case "requires", "ensures", "invariant":
				cl := &Clause{Src: rc.text, Where: where}
				txt := rc.text
				if m := reLabels.FindStringSubmatch(txt); m != nil {
					cl.Labels = splitList(m[1])
					txt = txt[len(m[0]):]
				}
				e, err := parseCExpr(txt)
				if err != nil {
					return fail(err)
				}
				cl.Expr = e
				switch rc.kw {
				case "requires":
					cur.Requires = append(cur.Requires, cl)
				case "ensures":
					cur.Ensures = append(cur.Ensures, cl)
				case "invariant":
					if curLoop == nil {
						return fail(fmt.Errorf("invariant outside loop"))
					}
					curLoop.Invariants = append(curLoop.Invariants, cl)
				}
			case "modifies":
				cur.HasMod = true
				if strings.TrimSpace(rc.text) == "nothing" {
					cur.ModNothing = true
					break
				}
				for _, s := range splitTopComma(rc.text) {
					e, err := parseCExpr(s)
					if err != nil {
						return fail(err)
					}
					cur.Modifies = append(cur.Modifies, e)
				}
			case "split":
				sp := &SplitSpec{Src: rc.text}
				txt := rc.text
				if strings.HasPrefix(txt, "when ") {
					i := strings.Index(txt, ":")
					if i < 0 {
						return fail(fmt.Errorf("split when ... : missing ':'"))
					}
					g, err := parseCExpr(txt[5:i])
					if err != nil {
						return fail(err)
					}
					sp.Guard = g
					txt = txt[i+1:]
				}
				for _, s := range splitTopComma(txt) {
					e, err := parseCExpr(s)
					if err != nil {
						return fail(err)
					}
					sp.Exprs = append(sp.Exprs, e)
				}
				cur.Splits = append(cur.Splits, sp)
			case "callghost": // callghost NAME := Callee#n[.k]
				i := strings.Index(rc.text, ":=")
				if i < 0 {
					return fail(fmt.Errorf("want: callghost NAME := Callee#n"))
				}
				tgt := strings.TrimSpace(rc.text[i+2:])
				res := 0
				if j := strings.LastIndex(tgt, "."); j > strings.Index(tgt, "#") && strings.Index(tgt, "#") >= 0 {
					res, _ = strconv.Atoi(tgt[j+1:])
					tgt = tgt[:j]
				}
				callee, ord, err := parseOrd(tgt)
				if err != nil {
					return fail(err)
				}
				cur.CallGhosts = append(cur.CallGhosts, &CallGhost{Name: strings.TrimSpace(rc.text[:i]), Callee: callee, Ord: ord, Res: res})
			case "scenario":
				sc, err := parseScenario(rc.text)
				if err != nil {
					return fail(err)
				}
				sc.Src = where
				cur.Scenarios = append(cur.Scenarios, sc)
			case "family":
				fam, err := parseFamily(rc.text)
				if err != nil {
					return fail(err)
				}
				fam.Src = where
				cur.Families = append(cur.Families, fam)
			case "splitcall": // splitcall Base.Score#0 grid 0 100
				fs := strings.Fields(rc.text)
				if len(fs) != 4 || fs[1] != "grid" {
					return fail(fmt.Errorf("want: splitcall F#n grid LO HI"))
				}
				callee, ord, err := parseOrd(fs[0])
				if err != nil {
					return fail(err)
				}
				lo, _ := strconv.Atoi(fs[2])
				hi, _ := strconv.Atoi(fs[3])
				cur.SplitCalls = append(cur.SplitCalls, &SplitCall{Callee: callee, Ord: ord, Lo: lo, Hi: hi})
			case "cut": // cut roundUp#0[C03] grid 0 100 := specexpr
				i := strings.Index(rc.text, ":=")
				if i < 0 {
					return fail(fmt.Errorf("missing :="))
				}
				head := strings.TrimSpace(rc.text[:i])
				cs := &CutSpec{}
				fs := strings.Fields(head)
				if len(fs) != 4 || fs[1] != "grid" {
					return fail(fmt.Errorf("want: cut F#n[label] grid LO HI := spec"))
				}
				h0 := fs[0]
				if j := strings.Index(h0, "["); j >= 0 {
					cs.Label = strings.Trim(h0[j:], "[]")
					h0 = h0[:j]
				}
				callee, ord, err := parseOrd(h0)
				if err != nil {
					return fail(err)
				}
				cs.Callee, cs.Ord = callee, ord
				cs.Lo, _ = strconv.Atoi(fs[2])
				cs.Hi, _ = strconv.Atoi(fs[3])
				e, err := parseCExpr(rc.text[i+2:])
				if err != nil {
					return fail(err)
				}
				cs.Spec = e
				cur.Cuts = append(cur.Cuts, cs)
			case "grid":
				txt := rc.text
				if m := reLabels.FindStringSubmatch(txt); m != nil {
					cur.GridLabel = m[1]
					txt = txt[len(m[0]):]
				}
				fs := strings.Fields(txt)
				if len(fs) != 2 {
					return fail(fmt.Errorf("want: grid LO HI"))
				}
				lo, _ := strconv.Atoi(fs[0])
				hi, _ := strconv.Atoi(fs[1])
				cur.Grid = &[2]int{lo, hi}
			case "inline":
				cur.Inline = true
			case "summary":
				cur.Summary = true
			case "abstract":
				cur.Abstract = true
			case "thorough":
				cur.ThoroughOnly = true
			case "trusted":
				cur.Trusted = true
			case "loop": // loop 0 index i:
				fs := strings.Fields(strings.TrimSuffix(strings.TrimSpace(rc.text), ":"))
				if len(fs) != 3 || fs[1] != "index" {
					return fail(fmt.Errorf("want: loop N index I:"))
				}
				n, _ := strconv.Atoi(fs[0])
				curLoop = &LoopSpec{Index: fs[2]}
				if cur.Loops == nil {
					cur.Loops = map[int]*LoopSpec{}
				}
				cur.Loops[n] = curLoop
			}
		}
	}
	return nil
}

func parseOrd(s string) (string, int, error) {
	i := strings.Index(s, "#")
	if i < 0 {
		return s, 0, nil
	}
	n, err := strconv.Atoi(s[i+1:])
	return s[:i], n, err
}

func splitList(s string) []string {
	var out []string
	for _, x := range strings.Split(s, ",") {
		x = strings.TrimSpace(x)
		if x != "" {
			out = append(out, x)
		}
	}
	return out
}

func splitTopComma(s string) []string {
	var out []string
	depth := 0
	start := 0
	inStr := false
	for i := 0; i < len(s); i++ {
		switch c := s[i]; {
		case c == '"':
			inStr = !inStr
		case inStr:
		case c == '(' || c == '[':
			depth++
		case c == ')' || c == ']':
			depth--
		case c == ',' && depth == 0:
			out = append(out, strings.TrimSpace(s[start:i]))
			start = i + 1
		}
	}
	if strings.TrimSpace(s[start:]) != "" {
		out = append(out, strings.TrimSpace(s[start:]))
	}
	return out
}

func typeExprString(e ast.Expr) string {
	switch t := e.(type) {
	case *ast.Ident:
		return t.Name
	case *ast.StarExpr:
		return "*" + typeExprString(t.X)
	case *ast.SelectorExpr:
		return typeExprString(t.X) + "." + t.Sel.Name
	case *ast.ArrayType:
		return "[]" + typeExprString(t.Elt)
	case *ast.Ellipsis:
		return "..." + typeExprString(t.Elt)
	case *ast.MapType:
		return "map[" + typeExprString(t.Key) + "]" + typeExprString(t.Value)
	case *ast.InterfaceType:
		return "interface{}"
	case *ast.FuncType:
		return "func"
	}
	return "?"
}

func parseHeaderParams(head string) (name string, pnames, ptypes []string, err error) {
	f, err := parser.ParseFile(token.NewFileSet(), "", "package p\nfunc "+head+"{}", 0)
	if err != nil {
		return "", nil, nil, err
	}
	fd := f.Decls[0].(*ast.FuncDecl)
	for _, fl := range fd.Type.Params.List {
		for _, n := range fl.Names {
			pnames = append(pnames, n.Name)
			ptypes = append(ptypes, typeExprString(fl.Type))
		}
	}
	return fd.Name.Name, pnames, ptypes, nil
}

func parseFuncHeader(alias, header string) (*Contract, error) {
	f, err := parser.ParseFile(token.NewFileSet(), "", "package p\n"+header+"{}", 0)
	if err != nil {
		return nil, err
	}
	fd := f.Decls[0].(*ast.FuncDecl)
	c := &Contract{Alias: alias, Header: header}
	key := alias + "."
	if fd.Recv != nil && len(fd.Recv.List) > 0 {
		r := fd.Recv.List[0]
		if len(r.Names) > 0 {
			c.Recv = r.Names[0].Name
		}
		key += strings.TrimPrefix(typeExprString(r.Type), "*") + "."
	}
	key += fd.Name.Name
	c.Key = key
	for _, fl := range fd.Type.Params.List {
		for _, n := range fl.Names {
			c.Params = append(c.Params, n.Name)
		}
	}
	if fd.Type.Results != nil {
		for _, fl := range fd.Type.Results.List {
			for _, n := range fl.Names {
				c.Results = append(c.Results, n.Name)
			}
		}
	}
	return c, nil
}

func (u *Universe) bindContracts() {
	for k, c := range u.Contracts {
		fi, ok := u.Funcs[k]
		if !ok {
			u.problem("contract %s (%s): no such function in the current tree", k, c.Where)
			continue
		}
		np := fi.Sig.Params().Len()
		if len(c.Params) != np {
			u.problem("contract %s (%s): %d parameters in contract, %d in code", k, c.Where, len(c.Params), np)
			continue
		}
		fi.Contract = c
	}
}

// family NAME[labels] when GUARD: e1 in D1, e2 in D2 [; stop F#n === SPEC in LO HI] [; replace F#n grid LO HI [pm0] as K]
func parseFamily(text string) (*FamilySpec, error) {
	fam := &FamilySpec{}
	i := strings.Index(text, " when ")
	if i < 0 {
		return nil, fmt.Errorf("family: missing 'when'")
	}
	head := strings.TrimSpace(text[:i])
	if j := strings.Index(head, "["); j >= 0 {
		fam.Labels = splitList(strings.Trim(head[j:], "[]"))
		head = head[:j]
	}
	fam.Name = head
	rest := text[i+6:]
	j := strings.Index(rest, ":")
	if j < 0 {
		return nil, fmt.Errorf("family: missing ':'")
	}
	fam.GuardSrc = strings.TrimSpace(rest[:j])
	g, err := parseCExpr(fam.GuardSrc)
	if err != nil {
		return nil, err
	}
	fam.Guard = g
	parts := strings.Split(rest[j+1:], ";")
	for _, it := range splitTopComma(parts[0]) {
		k := strings.LastIndex(it, " in ")
		if k < 0 {
			return nil, fmt.Errorf("family item %q: missing 'in DOMAIN'", it)
		}
		e, err := parseCExpr(it[:k])
		if err != nil {
			return nil, err
		}
		fam.Items = append(fam.Items, FamItem{Expr: e, Dom: strings.TrimSpace(it[k+4:])})
	}
	for _, p := range parts[1:] {
		p = strings.TrimSpace(p)
		switch {
		case strings.HasPrefix(p, "stop "):
			// stop F#n sat EXPR      (EXPR is a Bool spec expression over `cutval`, the value returned by the call)
			k := strings.Index(p, " sat ")
			if k < 0 {
				return nil, fmt.Errorf("family stop: want 'stop F#n sat EXPR'")
			}
			callee, ord, err := parseOrd(strings.TrimSpace(p[5:k]))
			if err != nil {
				return nil, err
			}
			fam.StopCallee, fam.StopOrd = callee, ord
			sp, err := parseCExpr(p[k+5:])
			if err != nil {
				return nil, err
			}
			fam.StopSpec = sp
		case strings.HasPrefix(p, "judge "):
			jg, err := parseCExpr(p[6:])
			if err != nil {
				return nil, err
			}
			fam.Judge = jg
		case strings.HasPrefix(p, "replace "):
			fs := strings.Fields(p)
			// replace F#n grid LO HI [pm0] as K
			if len(fs) < 7 || fs[2] != "grid" {
				return nil, fmt.Errorf("family replace: want 'replace F#n grid LO HI [pm0] as K'")
			}
			callee, ord, err := parseOrd(fs[1])
			if err != nil {
				return nil, err
			}
			fam.ReplCallee, fam.ReplOrd = callee, ord
			fam.Lo, _ = strconv.Atoi(fs[3])
			fam.Hi, _ = strconv.Atoi(fs[4])
			k := 5
			if fs[k] == "pm0" {
				fam.ReplPM0 = true
				k++
			}
			if k+1 >= len(fs) || fs[k] != "as" {
				return nil, fmt.Errorf("family replace: missing 'as K'")
			}
			fam.ReplAs = fs[k+1]
		default:
			return nil, fmt.Errorf("family: unknown part %q", p)
		}
	}
	return fam, nil
}

// scenario NAME[labels]: ghosts a int, b int; assume EXPR; bind p := EXPR; inline F, G
func parseScenario(text string) (*ScenarioSpec, error) {
	i := strings.Index(text, ":")
	if i < 0 {
		return nil, fmt.Errorf("scenario: missing ':'")
	}
	sc := &ScenarioSpec{Binds: map[string]*Node{}}
	head := strings.TrimSpace(text[:i])
	if j := strings.Index(head, "["); j >= 0 {
		sc.Labels = splitList(strings.Trim(head[j:], "[]"))
		head = head[:j]
	}
	sc.Name = head
	for _, part := range strings.Split(text[i+1:], ";") {
		part = strings.TrimSpace(part)
		switch {
		case strings.HasPrefix(part, "ghosts "):
			for _, g := range splitList(part[7:]) {
				fs := strings.Fields(g)
				if len(fs) != 2 {
					return nil, fmt.Errorf("scenario ghost %q", g)
				}
				sc.Ghosts = append(sc.Ghosts, BoundVar{fs[0], fs[1]})
			}
		case strings.HasPrefix(part, "assume "):
			e, err := parseCExpr(part[7:])
			if err != nil {
				return nil, err
			}
			sc.Assume = e
		case strings.HasPrefix(part, "bind "):
			k := strings.Index(part, ":=")
			if k < 0 {
				return nil, fmt.Errorf("scenario bind: missing :=")
			}
			e, err := parseCExpr(part[k+2:])
			if err != nil {
				return nil, err
			}
			sc.Binds[strings.TrimSpace(part[5:k])] = e
		case strings.HasPrefix(part, "inline "):
			sc.Inline = splitList(part[7:])
		case strings.HasPrefix(part, "recv "):
			sc.Recv = strings.TrimSpace(part[5:])
		case part == "":
		default:
			return nil, fmt.Errorf("scenario: unknown part %q", part)
		}
	}
	return sc, nil
}
