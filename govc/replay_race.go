package main

// C16 replay: a failed frame / global-state obligation becomes a confirmed violation when the Go race detector
// reports a data race (or results differ from the sequential ones) while goroutines decode vectors into their own
// objects, query shared decoded objects, and build and export reports. Used only to confirm refutations.

import (
	"bytes"
	"context"
	"encoding/json"
	"os"
	"os/exec"
	"path/filepath"
	"strings"
	"sync"
	"time"
)

const raceHarness = `package report

import (
	"fmt"
	"io"
	"strings"
	"sync"
	"testing"

	v2metric "github.com/goark/go-cvss/v2/metric"
	"github.com/goark/go-cvss/v3/metric"
	"golang.org/x/text/language"
)

func vrWorkV2(i int) string {
	vecs := []string{
		"AV:N/AC:L/Au:N/C:N/I:N/A:C/E:F/RL:OF/RC:C/CDP:H/TD:H/CR:M/IR:M/AR:H",
		"AV:L/AC:H/Au:M/C:P/I:P/A:N",
		"AV:A/AC:M/Au:S/C:C/I:N/A:P/E:POC/RL:TF/RC:UR",
		"AV:N/AC:M/Au:N/C:P/I:C/A:C/CDP:LM/TD:M/CR:H/IR:L/AR:ND",
	}
	var sb strings.Builder
	for k := 0; k < 4; k++ {
		v := vecs[(i+k)%len(vecs)]
		em, err := v2metric.NewEnvironmental().Decode(v)
		fmt.Fprintf(&sb, "%v|%v|", em != nil, err)
		if em != nil {
			fmt.Fprintf(&sb, "%v %v %s|", em.Score(), em.Severity(), em.String())
		}
		bm, err := v2metric.NewBase().Decode(strings.Join(strings.Split(v, "/")[:6], "/"))
		fmt.Fprintf(&sb, "%v|%v|", bm != nil, err)
		if bm != nil {
			fmt.Fprintf(&sb, "%v %s|", bm.Score(), bm.String())
		}
	}
	return sb.String()
}

func vrWork(shared *metric.Environmental, i int) string {
	vecs := []string{
		"CVSS:3.1/AV:N/AC:L/PR:N/UI:N/S:U/C:H/I:H/A:H/E:F/RL:O/RC:C/CR:H/IR:M/AR:L/MAV:N/MAC:L/MPR:N/MUI:N/MS:C/MC:H/MI:H/MA:H",
		"CVSS:3.0/AV:P/AC:H/PR:H/UI:R/S:C/C:N/I:L/A:N/E:X/XX:Y",
		"CVSS:3.1/AV:L/AC:L/PR:L/UI:R/S:U/C:L/I:L/A:L/RC:U/MS:X/MAV:Z",
		"CVSS:3.1/AV:A/AC:H/PR:N/UI:N/S:C/C:L/I:N/A:H/E:P",
	}
	langs := []language.Tag{language.English, language.Japanese, language.French, language.Und}
	var sb strings.Builder
	for k := 0; k < 4; k++ {
		v := vecs[(i+k)%len(vecs)]
		em, err := metric.NewEnvironmental().Decode(v)
		fmt.Fprintf(&sb, "%v|%v|", em != nil, err != nil)
		if em != nil {
			fmt.Fprintf(&sb, "%v %v %v %s|", em.Score(), em.TemporalMetrics().Score(), em.BaseMetrics().Score(), em.String())
		}
		tm, _ := metric.NewTemporal().Decode(v)
		bm, _ := metric.NewBase().Decode(v)
		fmt.Fprintf(&sb, "%v %v|", tm.Score(), bm.Severity())
		// shared object: queries only
		fmt.Fprintf(&sb, "%v %v %v %v|", shared.Score(), shared.Severity(), shared.GetError() == nil, shared.String())
		rep := NewEnvironmental(shared, WithOptionsLanguage(langs[(i+k)%len(langs)]))
		r, err := rep.ExportWithString("{{.EnvironmentalScore}} {{.SeverityValue}} {{.MAVName}} {{.AVValue}} {{.BaseScore}}")
		if err == nil {
			b, _ := io.ReadAll(r)
			sb.Write(b)
		}
		r2, err2 := rep.ExportWith(strings.NewReader("{{.Vector}} {{.TemporalScore}}"))
		if err2 == nil {
			b, _ := io.ReadAll(r2)
			sb.Write(b)
		}
		_, err3 := rep.ExportWithString("{{.NoSuchField}}")
		fmt.Fprintf(&sb, "|%v;", err3 != nil)
	}
	sb.WriteString(vrWorkV2(i))
	return sb.String()
}

// vrCold: only own objects; run before anything else touched the library in this process (lazily built tables race here)
func vrCold(i int) string {
	vecs := []string{
		"CVSS:3.1/AV:N/AC:L/PR:N/UI:N/S:U/C:H/I:H/A:H/E:F/RL:O/RC:C/CR:H/IR:M/AR:L/MAV:N/MAC:L/MPR:N/MUI:N/MS:C/MC:H/MI:H/MA:H",
		"CVSS:3.0/AV:P/AC:H/PR:H/UI:R/S:C/C:N/I:L/A:N/E:X",
	}
	v := vecs[i%len(vecs)]
	var sb strings.Builder
	em, err := metric.NewEnvironmental().Decode(v)
	fmt.Fprintf(&sb, "%v|%v|", em != nil, err)
	if em != nil {
		fmt.Fprintf(&sb, "%v %v %s|", em.Score(), em.Severity(), em.String())
		rep := NewEnvironmental(em, WithOptionsLanguage([]language.Tag{language.Japanese, language.French, language.English}[i%3]))
		fmt.Fprintf(&sb, "%s %s %s|", rep.SeverityValue, rep.MAVValue, rep.AVName)
	}
	bm, err := metric.NewBase().Decode(v)
	fmt.Fprintf(&sb, "%v|%v|", bm != nil, err)
	return sb.String()
}

func TestVerifRace(t *testing.T) {
	{
		const n = 16
		cold := make([]string, n)
		start := make(chan struct{})
		var wg sync.WaitGroup
		for i := 0; i < n; i++ {
			wg.Add(1)
			go func(i int) {
				defer wg.Done()
				<-start
				cold[i] = vrCold(i)
			}(i)
		}
		close(start)
		wg.Wait()
		for i := 0; i < n; i++ {
			if w := vrCold(i); w != cold[i] {
				fmt.Printf("RACE-DIFF first use of the library from goroutine %d: sequential %q concurrent %q\n", i, w, cold[i])
				t.Fail()
				return
			}
		}
	}
	shared, err := metric.NewEnvironmental().Decode("CVSS:3.1/AV:N/AC:L/PR:L/UI:N/S:C/C:H/I:L/A:N/E:F/RL:W/RC:R/CR:H/MPR:H/MS:U")
	if err != nil {
		t.Fatal(err)
	}
	const n = 16
	// the concurrent phase runs first (lazily initialised shared state races on first use), the sequential reference after it
	con := make([]string, n)
	var wg sync.WaitGroup
	for i := 0; i < n; i++ {
		wg.Add(1)
		go func(i int) {
			defer wg.Done()
			for rep := 0; rep < 20; rep++ {
				con[i] = vrWork(shared, i)
			}
		}(i)
	}
	wg.Wait()
	seq := make([]string, n)
	for i := 0; i < n; i++ {
		seq[i] = vrWork(shared, i)
	}
	for i := range seq {
		if seq[i] != con[i] {
			fmt.Printf("RACE-DIFF goroutine %d: sequential %q concurrent %q\n", i, seq[i], con[i])
			t.Fail()
			return
		}
	}
	fmt.Println("RACE-NONE results of 16 goroutines x 20 rounds equal the sequential results")
}
`

var raceOnce sync.Map

// raceReplay runs the concurrent harness under the race detector; cached per repo.
func raceReplay(repo string) (string, bool) {
	if v, ok := raceOnce.Load(repo); ok {
		r := v.([2]interface{})
		return r[0].(string), r[1].(bool)
	}
	tmp, err := os.MkdirTemp("", "govc-race-")
	if err != nil {
		return err.Error(), false
	}
	defer os.RemoveAll(tmp)
	tf := filepath.Join(tmp, "zz_verif_race_test.go")
	os.WriteFile(tf, []byte(raceHarness), 0o644)
	ov := map[string]map[string]string{"Replace": {filepath.Join(repo, "v3/report", "zz_verif_race_test.go"): tf}}
	ovb, _ := json.Marshal(ov)
	ovf := filepath.Join(tmp, "overlay.json")
	os.WriteFile(ovf, ovb, 0o644)
	ctx, cancel := context.WithTimeout(context.Background(), 400*time.Second)
	defer cancel()
	cmd := exec.CommandContext(ctx, "go", "test", "-race", "-overlay", ovf, "-vet=off", "-timeout", "300s", "-v", "-count=1", "-run", "^TestVerifRace$", "./v3/report")
	cmd.Dir = repo
	cmd.Env = append(os.Environ(), "GOFLAGS=-mod=mod", "GOPROXY=off", "GOSUMDB=off", "GOTOOLCHAIN=local", "CGO_ENABLED=1")
	var out bytes.Buffer
	cmd.Stdout = &out
	cmd.Stderr = &out
	runErr := cmd.Run()
	text := out.String()
	hit := strings.Contains(text, "WARNING: DATA RACE") || strings.Contains(text, "RACE-DIFF") || strings.Contains(text, "concurrent map")
	rep := "race replay (go test -race; cold phase: 16 goroutines make the first use of the library at the same moment; then 16 goroutines x 20 rounds: decode v3 and v2 vectors into own objects, query a shared decoded object, build and export reports):\n"
	switch {
	case hit:
		i := strings.Index(text, "WARNING: DATA RACE")
		if i < 0 {
			i = 0
		}
		j := i + 2500
		if j > len(text) {
			j = len(text)
		}
		rep += text[i:j] + "\n=> the race detector / result comparison confirms the violation: CONFIRMED\n"
	case strings.Contains(text, "RACE-NONE"):
		rep += "no data race reported and all concurrent results equal the sequential ones in this run (the refuted obligation is a sufficient condition only)\n"
	default:
		rep += "race replay did not run to completion: " + tail(text, 800) + "\n"
		_ = runErr
	}
	raceOnce.Store(repo, [2]interface{}{rep, hit})
	return rep, hit
}
