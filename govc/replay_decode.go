package main

// Witness search for refuted decoder obligations. The model of a quantified / loop obligation describes an abstract
// intermediate state, not an input, so a failing input is searched from the public entry points: a bounded family of
// candidate vectors (valid vectors and 1-2 token edits of them: duplicates, unknown names, invalid values, malformed
// tokens, other versions, lower case, whitespace, partial groups, reorderings, higher-level metrics) is run through
// the real decoders (in-package test, go test -overlay) and judged by an oracle written from the properties' sentences
// (C07/C08 acceptance, C09 fields via the canonical encoding, C10 encoding, C11 sentinel, C12 object/error pairing).
// The search only produces witnesses for replay files; it is never counted as proof.

import (
	"fmt"
	"sort"
	"strings"
	"sync"
)

func goTables(f *SpecFamily) string {
	var sb strings.Builder
	sb.WriteString("var vrMetrics = []vrMetric{\n")
	lv := map[string]int{"base": 0, "temporal": 1, "environmental": 2}
	for _, m := range f.Metrics {
		var codes []string
		for _, v := range m.Values {
			codes = append(codes, fmt.Sprintf("%q", v.Code))
		}
		fmt.Fprintf(&sb, "\t{%q, %d, []string{%s}, %q},\n", m.Name, lv[m.Level], strings.Join(codes, ", "), m.NotDefined)
	}
	sb.WriteString("}\n")
	return sb.String()
}

const decodeHarnessCommon = `
import (
	"errors"
	"fmt"
	"strings"
	"testing"

	"github.com/goark/go-cvss/cvsserr"
)

type vrMetric struct {
	name  string
	level int
	codes []string
	nd    string
}

var vrSentinels = map[string]error{
	"InvalidVector": cvsserr.ErrInvalidVector, "NotSupportVer": cvsserr.ErrNotSupportVer, "NotSupportMetric": cvsserr.ErrNotSupportMetric,
	"SameMetric": cvsserr.ErrSameMetric, "InvalidValue": cvsserr.ErrInvalidValue, "NoBaseMetrics": cvsserr.ErrNoBaseMetrics,
	"NoTemporalMetrics": cvsserr.ErrNoTemporalMetrics, "NoEnvironmentalMetrics": cvsserr.ErrNoEnvironmentalMetrics, "Misordered": cvsserr.ErrMisordered,
	"NullPointer": cvsserr.ErrNullPointer, "InvalidTemplate": cvsserr.ErrInvalidTemplate,
}

func vrMatch(e error) []string {
	var out []string
	for n, s := range vrSentinels {
		if errors.Is(e, s) {
			out = append(out, n)
		}
	}
	return out
}

func vrFind(name string, level int) *vrMetric {
	for i := range vrMetrics {
		if vrMetrics[i].name == name && vrMetrics[i].level <= level {
			return &vrMetrics[i]
		}
	}
	return nil
}

func vrHas(xs []string, x string) bool {
	for _, y := range xs {
		if y == x {
			return true
		}
	}
	return false
}

// candidate vectors: a few valid ones and one/two-token edits
func vrCandidates(valid []string, junk []string) []string {
	seen := map[string]bool{}
	var out []string
	add := func(s string) {
		if !seen[s] {
			seen[s] = true
			out = append(out, s)
		}
	}
	for _, v := range valid {
		add(v)
		toks := strings.Split(v, "/")
		for i := range toks {
			// delete, duplicate, swap with next, replace by junk, insert junk
			d := append(append([]string{}, toks[:i]...), toks[i+1:]...)
			add(strings.Join(d, "/"))
			dup := append(append(append([]string{}, toks[:i+1]...), toks[i]), toks[i+1:]...)
			add(strings.Join(dup, "/"))
			add(strings.Join(append(append([]string{}, toks...), toks[i]), "/"))
			if i+1 < len(toks) {
				sw := append([]string{}, toks...)
				sw[i], sw[i+1] = sw[i+1], sw[i]
				add(strings.Join(sw, "/"))
			}
			for _, j := range junk {
				r := append([]string{}, toks...)
				r[i] = j
				add(strings.Join(r, "/"))
				ins := append(append(append([]string{}, toks[:i]...), j), toks[i:]...)
				add(strings.Join(ins, "/"))
			}
			// value edits
			if k := strings.Index(toks[i], ":"); k > 0 {
				for _, nv := range []string{"X", "ND", "Z", "n", "", "N:X", " N", "H", "L", "None"} {
					r := append([]string{}, toks...)
					r[i] = toks[i][:k+1] + nv
					add(strings.Join(r, "/"))
				}
				r := append([]string{}, toks...)
				r[i] = strings.ToLower(toks[i])
				add(strings.Join(r, "/"))
				r = append([]string{}, toks...)
				r[i] = toks[i][:k+1] + strings.ToLower(toks[i][k+1:]) // the value alone in lower case (E:poc)
				add(strings.Join(r, "/"))
			}
		}
		for _, j := range junk {
			add(v + "/" + j)
			add(j + "/" + v)
		}
		add(" " + v)
		add(v + " ")
		add(v + "/")
		add("/" + v)
		add(v + "\n")
		add(strings.ToLower(v))
		add("(" + v + ")")
		add("(" + v)
		add(v + ")")
		add("\t" + v)
	}
	add("")
	add("/")
	return out
}
`

const decodeHarnessV3 = `package metric
` + decodeHarnessCommon + `
// oracle: CVSS v3 well-formedness at a level, the defects present, and the canonical encoding of an accepted vector
func vrOracle(s string, level int) (wf bool, defects map[string]bool, canon string) {
	defects = map[string]bool{}
	toks := strings.Split(s, "/")
	p := strings.Split(toks[0], ":")
	ver := ""
	if len(p) != 2 || p[0] != "CVSS" {
		defects["InvalidVector"] = true
	} else if p[1] != "3.0" && p[1] != "3.1" {
		defects["NotSupportVer"] = true
	} else {
		ver = p[1]
	}
	vals := map[string]string{}
	seen := map[string]bool{}
	for _, t := range toks[1:] {
		q := strings.Split(t, ":")
		if len(q) != 2 || q[0] == "" || q[1] == "" {
			defects["InvalidVector"] = true
			continue
		}
		if seen[q[0]] {
			defects["SameMetric"] = true
		}
		seen[q[0]] = true
		m := vrFind(q[0], level)
		if m == nil {
			defects["NotSupportMetric"] = true
			continue
		}
		if !vrHas(m.codes, q[1]) {
			defects["InvalidValue"] = true
			continue
		}
		vals[q[0]] = q[1]
	}
	for _, m := range vrMetrics {
		if m.level == 0 && !seen[m.name] {
			defects["NoBaseMetrics"] = true
		}
	}
	wf = len(defects) == 0
	if wf {
		canon = "CVSS:" + ver
		for _, m := range vrMetrics {
			if m.level > level {
				continue
			}
			v, ok := vals[m.name]
			if !ok {
				v = m.nd
			}
			canon += "/" + m.name + ":" + v
		}
	}
	return
}

var vrSeenTag = map[string]bool{}

type vrDec struct {
	name  string
	level int
	run   func(s string) (enc string, str string, obj bool, err error)
}

// scores and severities of every level reachable from a fresh decoder of the given level applied to s (C09: they
// depend only on the set of tokens - not on their order, not on X being written or omitted)
func vrScores(level int, s string) string {
	switch level {
	case 0:
		m, e := NewBase().Decode(s)
		if e != nil {
			return "error"
		}
		return fmt.Sprint(m.Score(), m.Severity())
	case 1:
		m, e := NewTemporal().Decode(s)
		if e != nil {
			return "error"
		}
		return fmt.Sprint(m.Score(), m.Severity(), m.BaseMetrics().Score(), m.BaseMetrics().Severity())
	default:
		m, e := NewEnvironmental().Decode(s)
		if e != nil {
			return "error"
		}
		return fmt.Sprint(m.Score(), m.Severity(), m.TemporalMetrics().Score(), m.TemporalMetrics().Severity(), m.BaseMetrics().Score(), m.BaseMetrics().Severity())
	}
}

// s without its explicitly written X tokens
func vrDropX(s string) string {
	var out []string
	for _, t := range strings.Split(s, "/") {
		if !strings.HasSuffix(t, ":X") {
			out = append(out, t)
		}
	}
	return strings.Join(out, "/")
}

func TestVerifDecodeSearch(t *testing.T) {
	decs := []vrDec{
		{"Base", 0, func(s string) (string, string, bool, error) { m, e := NewBase().Decode(s); if m == nil { return "", "", false, e }; x, _ := m.Encode(); return x, m.String(), true, e }},
		{"Temporal", 1, func(s string) (string, string, bool, error) { m, e := NewTemporal().Decode(s); if m == nil { return "", "", false, e }; x, _ := m.Encode(); return x, m.String(), true, e }},
		{"Environmental", 2, func(s string) (string, string, bool, error) { m, e := NewEnvironmental().Decode(s); if m == nil { return "", "", false, e }; x, _ := m.Encode(); return x, m.String(), true, e }},
		{"Base(nil)", 0, func(s string) (string, string, bool, error) { m, e := (*Base)(nil).Decode(s); if m == nil { return "", "", false, e }; x, _ := m.Encode(); return x, m.String(), true, e }},
		{"Temporal(nil)", 1, func(s string) (string, string, bool, error) { m, e := (*Temporal)(nil).Decode(s); if m == nil { return "", "", false, e }; x, _ := m.Encode(); return x, m.String(), true, e }},
		{"Environmental(nil)", 2, func(s string) (string, string, bool, error) { m, e := (*Environmental)(nil).Decode(s); if m == nil { return "", "", false, e }; x, _ := m.Encode(); return x, m.String(), true, e }},
	}
	valid := []string{
		"CVSS:3.1/AV:N/AC:L/PR:N/UI:N/S:U/C:H/I:H/A:H",
		"CVSS:3.0/AV:P/AC:H/PR:H/UI:R/S:C/C:N/I:L/A:N",
		"CVSS:3.1/A:H/I:H/C:H/S:U/UI:N/PR:N/AC:L/AV:N",
		"CVSS:3.1/AV:N/AC:L/PR:N/UI:N/S:U/C:H/I:H/A:H/E:F/RL:O/RC:C",
		"CVSS:3.0/AV:L/AC:L/PR:L/UI:R/S:U/C:L/I:L/A:L/E:X/RL:X/RC:X",
		"CVSS:3.1/E:P/AV:A/AC:H/PR:N/UI:N/S:C/C:L/I:N/A:H/RC:U",
		"CVSS:3.1/AV:N/AC:L/PR:N/UI:N/S:U/C:H/I:H/A:H/E:F/RL:O/RC:C/CR:H/IR:M/AR:L/MAV:N/MAC:L/MPR:N/MUI:N/MS:U/MC:H/MI:H/MA:H",
		"CVSS:3.0/AV:N/AC:L/PR:N/UI:N/S:U/C:H/I:H/A:H/MS:C/MI:N/CR:X/MAV:X",
		"CVSS:3.1/MPR:L/AV:N/AC:L/PR:N/UI:N/S:C/C:H/I:H/A:H/MA:X",
		"CVSS:3.1/AV:N/AC:L/PR:N/UI:N/S:U/C:H/I:H/A:H/CR:H/IR:M/AR:L/MAV:N/MAC:L/MPR:N/MUI:N/MS:X/MC:H/MI:H/MA:H/E:F/RL:O/RC:C",
		"CVSS:3.0/CR:L/IR:L/AR:L/MAV:P/MAC:H/MPR:H/MUI:R/MS:C/MC:L/MI:L/MA:L/E:U/RL:T/RC:R/AV:N/AC:L/PR:N/UI:N/S:U/C:H/I:H/A:H",
		"CVSS:3.1/MS:X/MPR:X/CR:X/E:X/AV:N/AC:L/PR:L/UI:N/S:C/C:H/I:H/A:H",
		"CVSS:3.0/MS:X/MC:X/MAV:X/RL:X/AV:L/AC:H/PR:H/UI:R/S:C/C:L/I:H/A:L/IR:H",
		"CVSS:3.1/MS:U/MPR:H/AV:N/AC:L/PR:L/UI:N/S:C/C:H/I:H/A:H/E:X",
	}
	junk := []string{"E:H", "RL:X", "MAV:N", "CR:X", "MI:N", "XX:N", "AVN", "AV:", ":N", "AV:N:X", "", "AV:\xff", "Au:N", "CDP:H", "av:n", "AV:N ", "CVSS:3.1", "CVSS:2.0"}
	cands := vrCandidates(valid, junk)
	for _, pre := range []string{"CVSS:3.1", "CVSS:3.0", "CVSS:2.0", "CVSS:3.2", "cvss:3.1", "CVSS3.1", "CVSS:", "CVSS:3.1:1", "CVSS", "XVSS:3.1", " CVSS:3.1", "CVSS:3.1 ", "CVSS:3.1.0", "CVSS:3.0.1", "CVSS:3.1.", "CVSS:3.10", "CVSS:03.1", "CVSS:3.01"} {
		cands = append(cands, pre+"/AV:N/AC:L/PR:N/UI:N/S:U/C:H/I:H/A:H", pre)
	}
	n := 0
	for _, d := range decs {
		for _, s := range cands {
			n++
			msg := ""
			func() {
				defer func() {
					if r := recover(); r != nil {
						msg = fmt.Sprintf("PANIC %v", r)
					}
				}()
				enc, str, obj, err := d.run(s)
				wf, defects, canon := vrOracle(s, d.level)
				switch {
				case obj == (err != nil):
					msg = fmt.Sprintf("C12: object=%v and error=%v", obj, err)
				case (err == nil) != wf:
					msg = fmt.Sprintf("C07: accepted=%v but well-formed=%v (defects %v)", err == nil, wf, defects)
				case err != nil:
					ms := vrMatch(err)
					if len(ms) != 1 {
						msg = fmt.Sprintf("C11: error matches %v (want exactly one sentinel)", ms)
					} else if !defects[ms[0]] {
						msg = fmt.Sprintf("C11: reports %s but the input's defects are %v", ms[0], defects)
					}
				default:
					if enc != canon {
						msg = fmt.Sprintf("C09/C10: Encode()=%q, canonical form of the written values is %q", enc, canon)
					} else if str != enc {
						msg = fmt.Sprintf("C10: String()=%q differs from Encode()=%q", str, enc)
					} else if a, b := vrScores(d.level, s), vrScores(d.level, canon); a != b {
						msg = fmt.Sprintf("C09: scores/severities %s, but %s for the same tokens in canonical order %q", a, b, canon)
					} else if c := vrScores(d.level, vrDropX(s)); a != c {
						msg = fmt.Sprintf("C09: scores/severities %s, but %s with the X tokens omitted", a, c)
					}
				}
			}()
			if msg != "" {
				tag := msg
				if len(tag) > 3 {
					tag = tag[:3]
				}
				if !vrSeenTag[tag] {
					vrSeenTag[tag] = true
					fmt.Printf("SEARCH-HIT decoder=%s input=%q : %s\n", d.name, s, msg)
				}
			}
		}
	}
	if len(vrSeenTag) > 0 {
		return
	}
	fmt.Printf("SEARCH-NONE %d decoder/input pairs agree with the oracle\n", n)
}
`

const decodeHarnessV2 = `package metric
` + decodeHarnessCommon + `
func vrOracle(s string, level int) (wf bool, defects map[string]bool, canon string) {
	defects = map[string]bool{}
	toks := strings.Split(s, "/")
	vals := map[string]string{}
	seen := map[string]bool{}
	var order []string
	for _, t := range toks {
		q := strings.Split(t, ":")
		if len(q) != 2 || q[0] == "" || q[1] == "" {
			defects["InvalidVector"] = true
			continue
		}
		if seen[q[0]] {
			defects["SameMetric"] = true
		}
		seen[q[0]] = true
		m := vrFind(q[0], level)
		if m == nil {
			defects["NotSupportMetric"] = true
			continue
		}
		if !vrHas(m.codes, q[1]) {
			defects["InvalidValue"] = true
			continue
		}
		vals[q[0]] = q[1]
		order = append(order, q[0])
	}
	cnt := map[int]int{}
	tot := map[int]int{}
	for _, m := range vrMetrics {
		tot[m.level]++
		if seen[m.name] {
			cnt[m.level]++
		}
	}
	if cnt[0] < tot[0] {
		defects["NoBaseMetrics"] = true
	}
	if level >= 1 && cnt[1] > 0 && cnt[1] < tot[1] {
		defects["NoTemporalMetrics"] = true
	}
	if level >= 2 && cnt[2] > 0 && cnt[2] < tot[2] {
		defects["NoEnvironmentalMetrics"] = true
	}
	// "valid tokens out of canonical order": every token is a valid Name:Value token of the level, no name repeats,
	// and the sequence differs from the specification order of those tokens (present alongside an incomplete group too)
	if !defects["InvalidVector"] && !defects["NotSupportMetric"] && !defects["InvalidValue"] && !defects["SameMetric"] {
		for _, m := range vrMetrics {
			if m.level <= level && seen[m.name] {
				if canon != "" {
					canon += "/"
				}
				canon += m.name + ":" + vals[m.name]
			}
		}
		if canon != s {
			defects["Misordered"] = true
		}
	}
	wf = len(defects) == 0
	return
}

var vrSeenTag = map[string]bool{}

type vrDec struct {
	name  string
	level int
	run   func(s string) (enc string, str string, obj bool, err error)
}

func TestVerifDecodeSearch(t *testing.T) {
	decs := []vrDec{
		{"Base", 0, func(s string) (string, string, bool, error) { m, e := NewBase().Decode(s); if m == nil { return "", "", false, e }; x, _ := m.Encode(); return x, m.String(), true, e }},
		{"Temporal", 1, func(s string) (string, string, bool, error) { m, e := NewTemporal().Decode(s); if m == nil { return "", "", false, e }; x, _ := m.Encode(); return x, m.String(), true, e }},
		{"Environmental", 2, func(s string) (string, string, bool, error) { m, e := NewEnvironmental().Decode(s); if m == nil { return "", "", false, e }; x, _ := m.Encode(); return x, m.String(), true, e }},
		{"Base(nil)", 0, func(s string) (string, string, bool, error) { m, e := (*Base)(nil).Decode(s); if m == nil { return "", "", false, e }; x, _ := m.Encode(); return x, m.String(), true, e }},
		{"Temporal(nil)", 1, func(s string) (string, string, bool, error) { m, e := (*Temporal)(nil).Decode(s); if m == nil { return "", "", false, e }; x, _ := m.Encode(); return x, m.String(), true, e }},
		{"Environmental(nil)", 2, func(s string) (string, string, bool, error) { m, e := (*Environmental)(nil).Decode(s); if m == nil { return "", "", false, e }; x, _ := m.Encode(); return x, m.String(), true, e }},
	}
	valid := []string{
		"AV:N/AC:L/Au:N/C:N/I:N/A:C",
		"AV:L/AC:H/Au:M/C:C/I:P/A:N",
		"AV:N/AC:L/Au:N/C:N/I:N/A:C/E:F/RL:OF/RC:C",
		"AV:A/AC:M/Au:S/C:P/I:P/A:P/E:ND/RL:ND/RC:ND",
		"AV:N/AC:L/Au:N/C:N/I:N/A:C/CDP:H/TD:H/CR:M/IR:M/AR:H",
		"AV:N/AC:L/Au:N/C:N/I:N/A:C/E:F/RL:OF/RC:C/CDP:H/TD:H/CR:M/IR:M/AR:H",
		"AV:L/AC:M/Au:N/C:P/I:N/A:N/E:POC/RL:TF/RC:UR/CDP:ND/TD:ND/CR:ND/IR:ND/AR:ND",
	}
	junk := []string{"E:H", "RL:ND", "RC:C", "CDP:N", "TD:H", "CR:ND", "XX:N", "AVN", "AV:", ":N", "AV:N:X", "", "PR:N", "S:U", "av:n", "AV:N ", "CVSS:3.1"}
	cands := vrCandidates(valid, junk)
	n := 0
	for _, d := range decs {
		for _, s := range cands {
			n++
			msg := ""
			func() {
				defer func() {
					if r := recover(); r != nil {
						msg = fmt.Sprintf("PANIC %v", r)
					}
				}()
				enc, str, obj, err := d.run(s)
				wf, defects, _ := vrOracle(s, d.level)
				switch {
				case obj == (err != nil):
					msg = fmt.Sprintf("C12: object=%v and error=%v", obj, err)
				case (err == nil) != wf:
					msg = fmt.Sprintf("C08: accepted=%v but canonical=%v (defects %v)", err == nil, wf, defects)
					if err == nil && enc != s && !vrSeenTag["C10"] {
						vrSeenTag["C10"] = true
						fmt.Printf("SEARCH-HIT decoder=%s input=%q : C10: the input is accepted but Encode()=%q is not byte-identical to it\n", d.name, s, enc)
					}
				case err != nil:
					ms := vrMatch(err)
					if len(ms) != 1 {
						msg = fmt.Sprintf("C11: error matches %v (want exactly one sentinel)", ms)
					} else if !defects[ms[0]] {
						msg = fmt.Sprintf("C11: reports %s but the input's defects are %v", ms[0], defects)
					}
				default:
					if enc != s {
						msg = fmt.Sprintf("C10: Encode()=%q is not byte-identical to the accepted input", enc)
					} else if str != enc {
						msg = fmt.Sprintf("C10: String()=%q differs from Encode()=%q", str, enc)
					}
				}
			}()
			if msg != "" {
				tag := msg
				if len(tag) > 3 {
					tag = tag[:3]
				}
				if !vrSeenTag[tag] {
					vrSeenTag[tag] = true
					fmt.Printf("SEARCH-HIT decoder=%s input=%q : %s\n", d.name, s, msg)
				}
			}
		}
	}
	if len(vrSeenTag) > 0 {
		return
	}
	fmt.Printf("SEARCH-NONE %d decoder/input pairs agree with the oracle\n", n)
}
`

var decodeSearchCache sync.Map

// decodeWitnessSearch runs the bounded witness search for one package ("v3/metric" / "v2/metric"); cached per run.
func decodeWitnessSearch(st *SpecTables, repo, pkgDir string) (string, bool) {
	key := repo + "|" + pkgDir
	if v, ok := decodeSearchCache.Load(key); ok {
		r := v.([2]interface{})
		return r[0].(string), r[1].(bool)
	}
	src := decodeHarnessV3
	fam := st.V3
	if strings.HasPrefix(pkgDir, "v2/") {
		src = decodeHarnessV2
		fam = st.V2
	}
	src += "\n" + goTables(fam)
	out, err := runOverlayTest(repo, pkgDir, src, "TestVerifDecodeSearch")
	var lines []string
	hit := false
	for _, ln := range strings.Split(out, "\n") {
		if strings.HasPrefix(ln, "SEARCH-HIT") {
			hit = true
			lines = append(lines, ln)
		} else if strings.HasPrefix(ln, "SEARCH-NONE") {
			lines = append(lines, ln)
		}
	}
	sort.Strings(lines)
	rep := "bounded witness search from the public entry points (valid vectors and 1-2 token edits, six decoders incl. nil receivers; oracle written from the properties' sentences; witness search only, never proof):\n"
	if len(lines) == 0 {
		rep += fmt.Sprintf("search run produced no verdict (%v)\n%s\n", err, tail(out, 1500))
	} else {
		rep += strings.Join(lines, "\n") + "\n"
	}
	if hit {
		rep += "=> the real decoder violates the property on this input: CONFIRMED\n"
	}
	decodeSearchCache.Store(key, [2]interface{}{rep, hit})
	return rep, hit
}

// decodeWitnessFor: the witness search reports the first failing input per property aspect (C07/C08 acceptance, C09/C10
// encoding of the written values, C11 sentinel, C12 object-and-error / panic); for a decoder property only the hits of that
// property's aspect confirm a violation of it. Other properties that include the decoders accept any hit.
func decodeWitnessFor(st *SpecTables, repo, pkgDir, id string) (string, bool) {
	rep, hit := decodeWitnessSearch(st, repo, pkgDir)
	if !hit {
		return rep, false
	}
	aspect := map[string][]string{"C07": {": C07"}, "C08": {": C08"}, "C09": {": C09"}, "C10": {": C10", ": C09/C10"}, "C11": {": C11"}, "C12": {": C12", ": PANIC"}}
	keys, ok := aspect[id]
	if !ok {
		return rep, true
	}
	for _, ln := range strings.Split(rep, "\n") {
		if !strings.HasPrefix(ln, "SEARCH-HIT") {
			continue
		}
		for _, k := range keys {
			if strings.Contains(ln, k) {
				return rep, true
			}
		}
	}
	return strings.Replace(rep, "=> the real decoder violates the property on this input: CONFIRMED", "=> the failing inputs found concern other properties than "+id+"; no failing input for "+id+" in this search", 1), false
}
