package main

// Calls: in-repo functions (by contract or inlined), standard-library models, loops over slices.

import (
	"fmt"
	"go/ast"
	"go/constant"
	"go/token"
	"go/types"
	"math/big"
	"strings"
)

func shortKey(key string) string {
	if i := strings.Index(key, "."); i >= 0 {
		return key[i+1:]
	}
	return key
}

func (fr *frame) evalCall(p *Path, e *ast.CallExpr) []PV {
	c := p.C
	// type conversion
	if tv, ok := fr.info.Types[e.Fun]; ok && tv.IsType() {
		return fr.evalConversion(p, e, tv.Type)
	}
	// builtins
	if id, ok := e.Fun.(*ast.Ident); ok {
		if b, ok := fr.info.Uses[id].(*types.Builtin); ok {
			return fr.evalBuiltin(p, e, b.Name())
		}
		if v, ok := fr.info.Uses[id].(*types.Var); ok {
			// call of a function value (closure, named function, method value) held in a variable
			return fr.callFuncValue(p, e, p.Vars[v], v.Name())
		}
	}
	if fl, ok := ast.Unparen(e.Fun).(*ast.FuncLit); ok {
		// immediately invoked function literal
		var out []PV
		for _, fv := range fr.eval(p, fl) {
			out = append(out, fr.callFuncValue(fv.P, e, fv.V, "function literal")...)
		}
		return out
	}
	if se, ok := e.Fun.(*ast.SelectorExpr); ok {
		// call of a function-typed field of a local record: row.title(lang)
		if sel, ok := fr.info.Selections[se]; ok && sel.Kind() == types.FieldVal {
			if _, isSig := sel.Type().Underlying().(*types.Signature); isSig {
				var out []PV
				for _, fv := range fr.eval(p, se) {
					out = append(out, fr.callFuncValue(fv.P, e, fv.V, "field "+se.Sel.Name)...)
				}
				return out
			}
		}
	}
	if ix, ok := e.Fun.(*ast.IndexExpr); ok {
		// call of an element of a concrete list of function values: os[i](x)
		if _, isSig := fr.info.Types[ix].Type.Underlying().(*types.Signature); isSig {
			var out []PV
			for _, fv := range fr.eval(p, ix) {
				out = append(out, fr.callFuncValue(fv.P, e, fv.V, "element")...)
			}
			return out
		}
	}
	// resolve callee
	var fn *types.Func
	var recvExpr ast.Expr
	var sel *types.Selection
	switch f := e.Fun.(type) {
	case *ast.Ident:
		fn, _ = fr.info.Uses[f].(*types.Func)
	case *ast.SelectorExpr:
		if s, ok := fr.info.Selections[f]; ok {
			sel = s
			fn, _ = s.Obj().(*types.Func)
			recvExpr = f.X
		} else {
			fn, _ = fr.info.Uses[f.Sel].(*types.Func)
		}
	}
	if fn == nil {
		c.untranslatable(e.Pos(), "call of unresolved function")
		return one(p, OpaqueVal{"call"})
	}
	// receiver
	recvs := []PV{{p, nil}}
	if recvExpr != nil {
		recvs = nil
		for _, pv := range fr.eval(p, recvExpr) {
			idx := sel.Index()
			v, t := fr.walkFieldPath(pv.P, pv.V, sel.Recv(), idx[:len(idx)-1], e.Pos())
			_ = t
			recvs = append(recvs, PV{pv.P, v})
		}
	}
	var out []PV
	for _, rv := range recvs {
		for _, a := range fr.evalExprs(rv.P, e.Args) {
			q := a[0].(*Path)
			args := a[1].([]Value)
			if len(args) == 1 && len(e.Args) == 1 {
				if tv, ok := args[0].(*TupleVal); ok { // f(g()) with multi-value g
					args = tv.Vs
				}
			}
			if iv, ok := rv.V.(*IfaceVal); ok && fn != nil {
				// dynamic dispatch through the value's dynamic type
				ms := types.NewMethodSet(iv.Dyn)
				var dyn *types.Func
				for i := 0; i < ms.Len(); i++ {
					if ms.At(i).Obj().Name() == fn.Name() {
						dyn, _ = ms.At(i).Obj().(*types.Func)
					}
				}
				if dyn != nil {
					out = append(out, fr.dispatchCall(q, e, dyn, iv.V, args)...)
					continue
				}
			}
			out = append(out, fr.dispatchCall(q, e, fn, rv.V, args)...)
		}
	}
	return out
}

func (fr *frame) dispatchCall(p *Path, e *ast.CallExpr, fn *types.Func, recv Value, args []Value) []PV {
	c := p.C
	if fi, ok := c.U.FuncByObj[fn]; ok {
		// an argument of a concrete type passed for an interface parameter (e.g. fmt.Stringer) keeps its dynamic type
		sig := fi.Sig
		for i := 0; i < sig.Params().Len() && i < len(args) && i < len(e.Args); i++ {
			pt := sig.Params().At(i).Type()
			if _, isIface := pt.Underlying().(*types.Interface); !isIface || types.Identical(pt, types.Universe.Lookup("error").Type()) {
				continue
			}
			if sig.Variadic() && i == sig.Params().Len()-1 {
				continue
			}
			if tv, ok := fr.info.Types[e.Args[i]]; ok && tv.Type != nil {
				if _, argIface := tv.Type.Underlying().(*types.Interface); !argIface {
					if _, already := args[i].(*IfaceVal); !already {
						args = append(append([]Value(nil), args[:i]...), append([]Value{&IfaceVal{V: args[i], Dyn: tv.Type}}, args[i+1:]...)...)
					}
				}
			}
		}
		return fr.callRepo(p, e, fi, recv, args)
	}
	pkg := ""
	if fn.Pkg() != nil {
		pkg = fn.Pkg().Path()
	}
	name := pkg + "." + fn.Name()
	if sig := fn.Type().(*types.Signature); sig.Recv() != nil {
		t := sig.Recv().Type()
		if pt, ok := t.(*types.Pointer); ok {
			t = pt.Elem()
		}
		if n, ok := t.(*types.Named); ok {
			name = pkg + "." + n.Obj().Name() + "." + fn.Name()
		}
	}
	return fr.callStdlib(p, e, name, recv, args)
}

func (fr *frame) evalConversion(p *Path, e *ast.CallExpr, to types.Type) []PV {
	c := p.C
	var out []PV
	for _, pv := range fr.eval(p, e.Args[0]) {
		t, ok := asTerm(pv.V)
		if !ok {
			c.untranslatable(e.Pos(), "conversion of unmodelled value")
			out = append(out, PV{pv.P, OpaqueVal{"conv"}})
			continue
		}
		toS := c.U.sortOfType(to)
		switch {
		case t.Sort == toS:
			out = append(out, PV{pv.P, t})
		case t.Sort == SF64 && toS == SInt:
			// float -> int: exact (truncation) for finite values within the int64 range; outside that range Go
			// yields an implementation-dependent value without panicking -> unspecified (fresh) value.
			inr := Term{S: fmt.Sprintf("(and (not (fp.isNaN %s)) (not (fp.isInfinite %s)) (fp.lt %s ((_ to_fp 11 53) RNE 9223372036854775808.0)) (fp.gt %s ((_ to_fp 11 53) RNE (- 9223372036854775809.0))))", t.S, t.S, t.S, t.S), Sort: SBool}
			// kept on the bit-vector level: (sbv2int <bv>) so that % and comparisons with constants stay in QF_BV+FP
			c.nfresh++
			un := fmt.Sprintf("conv_unspec!%d", c.nfresh)
			c.declare(un, "(_ BitVec 64)")
			out = append(out, PV{pv.P, Term{S: "(sbv2int (ite " + inr.S + " ((_ fp.to_sbv 64) RTZ " + t.S + ") " + un + "))", Sort: SInt}})
		case t.Sort == SInt && toS == SF64:
			if n, ok := t.C.(int64); ok {
				out = append(out, PV{pv.P, Term{S: fmt.Sprintf("((_ to_fp 11 53) RNE %d.0)", n), Sort: SF64}})
			} else {
				out = append(out, PV{pv.P, Term{S: "((_ to_fp 11 53) RNE (int2sbv " + t.S + "))", Sort: SF64}})
			}
		default:
			c.untranslatable(e.Pos(), fmt.Sprintf("conversion %s -> %s", t.Sort, toS))
			out = append(out, PV{pv.P, OpaqueVal{"conv"}})
		}
	}
	return out
}

func (fr *frame) evalBuiltin(p *Path, e *ast.CallExpr, name string) []PV {
	c := p.C
	switch name {
	case "len":
		var out []PV
		for _, pv := range fr.eval(p, e.Args[0]) {
			switch x := pv.V.(type) {
			case *SliceVal:
				out = append(out, PV{pv.P, x.Len})
			case *ListVal:
				out = append(out, PV{pv.P, mkInt(int64(len(x.Elems)))})
			case *VariadicVal:
				if x.Symbolic {
					c.untranslatable(e.Pos(), "len of symbolic variadic parameter")
					out = append(out, PV{pv.P, OpaqueVal{"len"}})
					continue
				}
				out = append(out, PV{pv.P, mkInt(int64(len(x.Elems)))})
			case Term:
				if x.Sort == SStr {
					out = append(out, PV{pv.P, tStrLen(x)})
					continue
				}
				c.untranslatable(e.Pos(), "len of term")
				out = append(out, PV{pv.P, OpaqueVal{"len"}})
			default:
				c.untranslatable(e.Pos(), "len of unmodelled value")
				out = append(out, PV{pv.P, OpaqueVal{"len"}})
			}
		}
		return out
	case "append":
		var out []PV
		for _, a := range fr.evalExprs(p, e.Args) {
			q := a[0].(*Path)
			vs := a[1].([]Value)
			sv, ok := vs[0].(*SliceVal)
			if !ok || !sv.Known || e.Ellipsis.IsValid() {
				c.untranslatable(e.Pos(), "append to symbolic slice")
				out = append(out, PV{q, OpaqueVal{"append"}})
				continue
			}
			ns := &SliceVal{Known: true, Elems: append([]Term(nil), sv.Elems...)}
			okAll := true
			for _, v := range vs[1:] {
				t, ok := asTerm(v)
				if !ok {
					okAll = false
					break
				}
				ns.Elems = append(ns.Elems, t)
			}
			if !okAll {
				c.untranslatable(e.Pos(), "append of unmodelled value")
				out = append(out, PV{q, OpaqueVal{"append"}})
				continue
			}
			ns.Len = mkInt(int64(len(ns.Elems)))
			out = append(out, PV{q, ns})
		}
		return out
	case "make":
		// make([]string, 0[, cap]): the empty list (capacity is not observable by the code in the subset)
		if tv, ok := fr.info.Types[e.Args[0]]; ok && len(e.Args) >= 2 {
			if sl, ok := tv.Type.Underlying().(*types.Slice); ok {
				if b, ok := sl.Elem().Underlying().(*types.Basic); ok && b.Kind() == types.String {
					if lv, ok := fr.info.Types[e.Args[1]]; ok && lv.Value != nil && lv.Value.String() == "0" {
						var out []PV
						for _, a := range fr.evalExprs(p, e.Args[1:]) { // evaluate len / cap for their safety obligations
							out = append(out, PV{a[0].(*Path), &SliceVal{Known: true, Elems: []Term{}, Len: mkInt(0)}})
						}
						return out
					}
				}
			}
		}
	case "new":
		// new(T) for a struct type of the repository: a fresh zero object
		if tv, ok := fr.info.Types[e.Args[0]]; ok {
			if named, ok := tv.Type.(*types.Named); ok {
				if ut, ok := named.Underlying().(*types.Struct); ok && named.Obj().Pkg() != nil {
					if _, inRepo := pkgAlias[named.Obj().Pkg().Path()]; inRepo {
						r := p.alloc(named.Obj().Name())
						okAll := true
						for j := 0; j < ut.NumFields(); j++ {
							f := ut.Field(j)
							srt := c.U.sortOfType(f.Type())
							if srt == SOpaque {
								okAll = false
								continue
							}
							p.writeField(fieldKey(named, f), srt, r, zeroTerm(srt))
						}
						if okAll {
							return one(p, r)
						}
					}
				}
			}
		}
	}
	c.untranslatable(e.Pos(), "builtin "+name)
	return one(p, OpaqueVal{name})
}

func (fr *frame) callClosure(p *Path, e *ast.CallExpr, cv *ClosureVal, what string) []PV {
	c := p.C
	if cv == nil {
		c.untranslatable(e.Pos(), "call of function value "+what)
		return one(p, OpaqueVal{"fnval"})
	}
	var out []PV
	for _, a := range fr.evalExprs(p, e.Args) {
		q := a[0].(*Path)
		args := a[1].([]Value)
		saved := q.Vars
		q.Vars = map[types.Object]Value{}
		for k, vv := range cv.Env {
			// captured by reference: a variable of the calling frame has its current value, not the one at creation
			if cur, ok := saved[k]; ok {
				q.Vars[k] = cur
			} else {
				q.Vars[k] = vv
			}
		}
		i := 0
		for _, fl := range cv.Lit.Type.Params.List {
			for _, nm := range fl.Names {
				if obj, ok := cv.Info.Defs[nm].(*types.Var); ok && i < len(args) {
					q.Vars[obj] = args[i]
				}
				i++
			}
		}
		var rets []*Path
		// a literal called in the function that wrote it is part of that function's body (same depth: its calls keep their
		// dynamic ordinals for cut points and call-site ghosts)
		d := fr.depth + 1
		if cv.Fi == fr.fi {
			d = fr.depth
		}
		sub := &frame{fi: cv.Fi, info: cv.Info, rets: &rets, depth: d}
		if cv.Lit.Type.Results != nil {
			var nv []*types.Var
			for _, fl := range cv.Lit.Type.Results.List {
				if len(fl.Names) == 0 {
					nv = append(nv, nil)
				}
				for _, nm := range fl.Names {
					v, _ := cv.Info.Defs[nm].(*types.Var)
					nv = append(nv, v)
				}
			}
			sub.bindNamed(q, nv)
		}
		live := sub.execBlock([]*Path{q}, cv.Lit.Body.List)
		for _, r := range append(live, rets...) {
			if r.Dead {
				continue
			}
			var val Value = &TupleVal{}
			if r.Returned && len(r.Ret) == 1 {
				val = r.Ret[0]
			} else if r.Returned && len(r.Ret) > 1 {
				val = &TupleVal{r.Ret}
			}
			r.Returned = false
			r.Ret = nil
			nv := copyVars(saved)
			for k := range cv.Env {
				if _, ok := saved[k]; ok {
					if fin, ok := r.Vars[k]; ok {
						nv[k] = fin // assignments to captured variables are visible to the caller
					}
				}
			}
			r.Vars = nv
			out = append(out, PV{r, val})
		}
	}
	return out
}

// ---------------------------------------------------------------------------
// in-repo calls

func (fr *frame) callRepo(p *Path, e *ast.CallExpr, fi *FuncInfo, recv Value, args []Value) []PV {
	c := p.C
	sk := shortKey(fi.Key)
	ord := -1
	fam := c.Fam
	if fr.depth == 0 {
		ord = p.CallOrd[sk]
		p.CallOrd[sk] = ord + 1
		if fam != nil && c.ReplVal != nil && fam.ReplCallee == sk && fam.ReplOrd == ord {
			p.CutSeen["replace"] = true
			c.CutSeen["replace"] = true
			return one(p, *c.ReplVal)
		}
	}
	var res []PV
	if fi.Contract != nil && !fi.Contract.Inline && !c.ForceInline[shortKey(fi.Key)] {
		res = fr.callContract(p, e, fi, recv, args)
	} else {
		res = fr.callInline(p, e, fi, recv, args)
	}
	if fr.depth == 0 && c.Fn.Contract != nil {
		for _, g := range c.Fn.Contract.CallGhosts {
			if g.Callee == sk && g.Ord == ord {
				g.Fi = fi
				for _, pv := range res {
					if pv.P.Ghosts == nil {
						pv.P.Ghosts = map[string]Value{}
					}
					v := pv.V
					if tv, ok := v.(*TupleVal); ok && g.Res < len(tv.Vs) {
						v = tv.Vs[g.Res]
					}
					pv.P.Ghosts[g.Name] = v
					if pv.P.GhostHeap == nil {
						pv.P.GhostHeap = map[string]map[string]Term{}
					}
					snap := make(map[string]Term, len(pv.P.Heap))
					for hk, hv := range pv.P.Heap {
						snap[hk] = hv
					}
					pv.P.GhostHeap[g.Name] = snap
				}
			}
		}
	}
	// stage-1 cut: value === tenth(spec), lo <= spec <= hi; the path stops here
	if fr.depth == 0 && fam != nil && fam.StopSpec != nil && fam.StopCallee == sk && fam.StopOrd == ord {
		c.CutSeen["stop"] = true
		for _, pv := range res {
			vt, ok := asTerm(pv.V)
			if !ok {
				continue
			}
			env := fr.specEnvAtPoint(pv.P, e.Pos())
			for k, v := range c.FamVars {
				env.Vars[k] = v
			}
			env.Vars["cutval"] = SV{T: vt}
			goal := env.evalBool(fam.StopSpec)
			if env.Err != nil {
				c.U.problem("%s: family %s stop: %v", c.Fn.Key, fam.Name, env.Err)
				continue
			}
			pv.P.oblig("cut", fmt.Sprintf("%s#family:%s:cut:%s#%d", c.Fn.Key, fam.Name, sk, ord), goal, e.Pos(), fam.Labels...)
			pv.P.Dead = true
		}
		return nil
	}
	return res
}

// specEnvAtPoint builds a spec environment whose identifiers are the Go variables in scope (by name).
func (fr *frame) specEnvAtPoint(p *Path, pos token.Pos) *SpecEnv {
	env := &SpecEnv{C: p.C, P: p, Old: map[string]Term{}, Vars: map[string]SV{}, Alias: aliasOf(fr.fi.Obj.Pkg())}
	best := map[string]types.Object{}
	for obj := range p.Vars {
		if obj.Parent() != nil && obj.Parent() != obj.Pkg().Scope() && !obj.Parent().Contains(pos) {
			// allow parameters/receivers (function scope contains pos) only
			continue
		}
		if b, ok := best[obj.Name()]; !ok || obj.Pos() > b.Pos() {
			best[obj.Name()] = obj
		}
	}
	for name, obj := range best {
		env.Vars[name] = valueToSV(p.Vars[obj], obj.Type())
	}
	// entry values of the parameters: <name>0
	if fr.depth == 0 {
		sig := fr.fi.Sig
		add := func(v *types.Var, cname string) {
			srt := p.C.U.sortOfType(v.Type())
			if srt == SOpaque {
				return
			}
			sv := SV{T: Term{S: "in_" + sanitize(v.Name()), Sort: srt}, GoT: v.Type()}
			env.Vars[v.Name()+"0"] = sv
			if cname != "" {
				env.Vars[cname+"0"] = sv
			}
		}
		ct := fr.fi.Contract
		if r := sig.Recv(); r != nil {
			cn := ""
			if ct != nil {
				cn = ct.Recv
			}
			add(r, cn)
		}
		for i := 0; i < sig.Params().Len(); i++ {
			cn := ""
			if ct != nil && i < len(ct.Params) {
				cn = ct.Params[i]
			}
			add(sig.Params().At(i), cn)
		}
	}
	// contract parameter names map onto the actual parameters positionally
	if ct := fr.fi.Contract; ct != nil {
		sig := fr.fi.Sig
		if ct.Recv != "" && sig.Recv() != nil {
			if v, ok := p.Vars[sig.Recv()]; ok {
				env.Vars[ct.Recv] = valueToSV(v, sig.Recv().Type())
			}
		}
		for i, pn := range ct.Params {
			if v, ok := p.Vars[sig.Params().At(i)]; ok {
				env.Vars[pn] = valueToSV(v, sig.Params().At(i).Type())
			}
		}
	}
	return env
}

func valueToSV(v Value, t types.Type) SV {
	switch x := v.(type) {
	case *IfaceVal:
		return valueToSV(x.V, t)
	case Term:
		return SV{T: x, GoT: t}
	case *SliceVal:
		return SV{Slice: x, GoT: t, T: Term{S: "slice", Sort: "Slice"}}
	}
	return SV{T: Term{S: "opaque", Sort: SOpaque}, GoT: t}
}

func (fr *frame) callInline(p *Path, e *ast.CallExpr, fi *FuncInfo, recv Value, args []Value) []PV {
	c := p.C
	if fr.depth >= 6 {
		c.untranslatable(e.Pos(), "inlining depth exceeded at "+fi.Key)
		return one(p, OpaqueVal{"deep"})
	}
	if fi.Decl.Body == nil {
		c.untranslatable(e.Pos(), "no body for "+fi.Key)
		return one(p, OpaqueVal{"nobody"})
	}
	saved := p.Vars
	p.Vars = map[types.Object]Value{}
	bindParams(p, fi, recv, args)
	var rets []*Path
	sub := &frame{fi: fi, info: fi.Pkg.TypesInfo, rets: &rets, depth: fr.depth + 1}
	{
		var nv []*types.Var
		for i := 0; i < fi.Sig.Results().Len(); i++ {
			nv = append(nv, fi.Sig.Results().At(i))
		}
		if len(nv) > 0 {
			sub.bindNamed(p, nv)
		}
	}
	live := sub.execBlock([]*Path{p}, fi.Decl.Body.List)
	var out []PV
	for _, r := range append(live, rets...) {
		if r.Dead {
			continue
		}
		var val Value = &TupleVal{}
		if r.Returned && len(r.Ret) == 1 {
			val = r.Ret[0]
		} else if r.Returned && len(r.Ret) > 1 {
			val = &TupleVal{r.Ret}
		} else if !r.Returned && fi.Sig.Results().Len() > 0 {
			c.untranslatable(e.Pos(), "missing return in inlined "+fi.Key)
		}
		r.Returned = false
		r.Ret = nil
		r.Vars = copyVars(saved) // sibling paths must not share the caller's variable map
		out = append(out, PV{r, val})
	}
	return out
}

func copyVars(m map[types.Object]Value) map[types.Object]Value {
	c := make(map[types.Object]Value, len(m))
	for k, v := range m {
		c[k] = v
	}
	return c
}

func bindParams(p *Path, fi *FuncInfo, recv Value, args []Value) {
	sig := fi.Sig
	if sig.Recv() != nil {
		p.Vars[sig.Recv()] = recv
	}
	n := sig.Params().Len()
	for i := 0; i < n; i++ {
		prm := sig.Params().At(i)
		if sig.Variadic() && i == n-1 && isOptionList(prm.Type()) && i < len(args) {
			if _, isT := args[i].(Term); isT {
				p.Vars[prm] = args[i] // forwarded option list (os...)
				continue
			}
			if vv, ok := args[i].(*VariadicVal); ok {
				p.Vars[prm] = vv
				continue
			}
		}
		if sig.Variadic() && i == n-1 {
			// variadic parameter: pack the remaining arguments
			var elems []Value
			elems = append(elems, args[i:]...)
			p.Vars[prm] = &VariadicVal{Elems: elems}
			continue
		}
		if i < len(args) {
			p.Vars[prm] = args[i]
		}
	}
}

// TemplateVal: a *template.Template (A6)
type TemplateVal struct {
	Src    Term
	Parsed bool
}

// libErr: a non-nil error of a library (matches none of the cvsserr sentinels)
var libErr = Term{S: "#x800", Sort: SErr, C: "err:800"}

type VariadicVal struct {
	Elems    []Value
	Symbolic bool
	Name     string
}

func (fr *frame) callContract(p *Path, e *ast.CallExpr, fi *FuncInfo, recv Value, args []Value) []PV {
	c := p.C
	ct := fi.Contract
	env := &SpecEnv{C: c, P: p, Vars: map[string]SV{}, Alias: ct.Alias}
	sig := fi.Sig
	if sig.Recv() != nil && ct.Recv != "" {
		env.Vars[ct.Recv] = valueToSV(recv, sig.Recv().Type())
	}
	for i, pn := range ct.Params {
		if i < len(args) {
			env.Vars[pn] = valueToSV(args[i], sig.Params().At(i).Type())
		}
	}
	site := fmt.Sprintf("%s->%s@%d", c.Fn.Key, fi.Key, c.U.Fset.Position(e.Pos()).Line)
	// preconditions
	for i, rq := range ct.Requires {
		g := env.evalBool(rq.Expr)
		if env.Err != nil {
			c.U.problem("%s: requires of %s: %v", site, fi.Key, env.Err)
			env.Err = nil
			continue
		}
		p.oblig("pre", fmt.Sprintf("%s#pre%d", site, i), g, e.Pos(), "pre")
	}
	// snapshot for old()
	old := map[string]Term{}
	for k, v := range p.Heap {
		old[k] = v
	}
	env.Old = old
	// havoc the frame
	if !ct.HasMod {
		c.U.problem("contract %s has no modifies clause", fi.Key)
	}
	for _, loc := range ct.Modifies {
		fr.havocLoc(p, env, loc, site)
	}
	// results
	nres := sig.Results().Len()
	results := make([]Value, nres)
	resNames := []string{}
	for i := 0; i < nres; i++ {
		rt := sig.Results().At(i).Type()
		srt := c.U.sortOfType(rt)
		if srt == SOpaque {
			results[i] = OpaqueVal{"result of " + fi.Key}
			continue
		}
		results[i] = c.fresh("r_"+shortKey(fi.Key), srt)
		nm := fmt.Sprintf("res%d", i)
		resNames = append(resNames, nm)
		env.Vars[nm] = SV{T: results[i].(Term), GoT: rt}
		if nres == 1 {
			env.Vars["result"] = env.Vars[nm]
		}
		if i < len(ct.Results) {
			env.Vars[ct.Results[i]] = env.Vars[nm]
		}
	}
	// a `summary` function is represented exactly by its summary term
	if ct.Summary && nres == 1 {
		if _, ok := c.U.Specs[summaryName(fi.Key)]; ok {
			var as []Term
			okAll := true
			if sig.Recv() != nil {
				t, ok := asTerm(recv)
				okAll = okAll && ok
				as = append(as, t)
			}
			for _, a := range args {
				t, ok := asTerm(a)
				okAll = okAll && ok
				as = append(as, t)
			}
			if okAll {
				if t, ok := c.U.foldSpecApp(summaryName(fi.Key), as); ok {
					return one(p, t)
				}
				return one(p, app(c.U.sortOfType(sig.Results().At(0).Type()), summaryName(fi.Key), as...))
			}
		}
	}
	// postconditions: functional ones bind the result, the rest are assumed; ensures owned by a ground family of the
	// callee speak about ghost variables of that family and are not visible to callers
	owned := familyLabels(ct)
	for _, en := range ct.Ensures {
		skip := false
		for _, l := range en.Labels {
			if owned[l] {
				skip = true
			}
		}
		if skip || mentionsGhost(en.Expr, ct) {
			continue
		}
		fr.assumeEnsures(p, env, en.Expr, results, nres, fi, site)
	}
	if p.Dead {
		return nil
	}
	if nres == 1 {
		return one(p, results[0])
	}
	return one(p, &TupleVal{results})
}

// assumeEnsures assumes an ensures clause; "G ==> result === E" with G folding to true binds the result to E.
func (fr *frame) assumeEnsures(p *Path, env *SpecEnv, n *Node, results []Value, nres int, fi *FuncInfo, site string) {
	c := p.C
	if n.Op == "bin" && n.Name == "&&" {
		fr.assumeEnsures(p, env, n.Args[0], results, nres, fi, site)
		fr.assumeEnsures(p, env, n.Args[1], results, nres, fi, site)
		return
	}
	if n.Op == "bin" && n.Name == "==>" {
		g := env.evalBool(n.Args[0])
		if env.Err != nil {
			c.U.problem("%s: ensures of %s: %v", site, fi.Key, env.Err)
			env.Err = nil
			return
		}
		g = p.norm(g)
		if cb, ok := g.C.(bool); ok {
			if cb {
				fr.assumeEnsures(p, env, n.Args[1], results, nres, fi, site)
			}
			return
		}
	}
	if n.Op == "bin" && (n.Name == "===" || n.Name == "==") && n.Args[0].Op == "ident" {
		idx := -1
		switch nm := n.Args[0].Name; {
		case nm == "result" && nres == 1:
			idx = 0
		case strings.HasPrefix(nm, "res") && len(nm) == 4 && nm[3] >= '0' && nm[3] <= '9':
			idx = int(nm[3] - '0')
		}
		if idx >= 0 && idx < nres {
			if cur, ok := results[idx].(Term); ok && strings.Contains(cur.S, "!") && (n.Name == "===" || cur.Sort != SF64) {
				rhs := env.eval(n.Args[1])
				if env.Err == nil {
					if rhs.IsNil {
						rhs.T = nilOfSort(cur.Sort)
					}
					rhs, _ = coerceLit(rhs, SV{T: cur})
					if rhs.T.Sort == cur.Sort {
						results[idx] = rhs.T
						nm := fmt.Sprintf("res%d", idx)
						sv := env.Vars[nm]
						sv.T = rhs.T
						env.Vars[nm] = sv
						for k, v := range env.Vars {
							if v.T.S == cur.S {
								v.T = rhs.T
								env.Vars[k] = v
							}
						}
						return
					}
				}
				env.Err = nil
			}
		}
	}
	t := env.evalBool(n)
	if env.Err != nil {
		c.U.problem("%s: ensures of %s: %v", site, fi.Key, env.Err)
		env.Err = nil
		return
	}
	p.assume(t)
}

// havocLoc havocs one location of a modifies clause: x.f  or  mapof(x.names)
func (fr *frame) havocLoc(p *Path, env *SpecEnv, loc *Node, site string) {
	c := p.C
	key, srt, ref, err := resolveLoc(env, loc)
	if err != nil {
		c.U.problem("%s: modifies %s: %v", site, loc, err)
		return
	}
	if key == mapSBKey {
		m := p.heapGet(mapSBKey, "")
		p.Heap[mapSBKey] = tStore(m, ref, c.fresh("hv_map", SArrSB))
		return
	}
	h := p.heapGet(key, srt)
	p.Heap[key] = tStore(h, ref, c.fresh("hv_"+sanitize(key), srt))
}

// resolveLoc evaluates a location expression in the pre-state: returns heap key, value sort and the reference.
func resolveLoc(env *SpecEnv, loc *Node) (string, string, Term, error) {
	c := env.C
	saved := env.inOld
	defer func() { env.inOld = saved }()
	if loc.Op == "call" && loc.Name == "mapof" && len(loc.Args) == 1 {
		v := env.eval(loc.Args[0])
		if env.Err != nil {
			err := env.Err
			env.Err = nil
			return "", "", Term{}, err
		}
		return mapSBKey, "", v.T, nil
	}
	if loc.Op != "field" {
		return "", "", Term{}, fmt.Errorf("not a location")
	}
	x := env.eval(loc.Args[0])
	if env.Err != nil {
		err := env.Err
		env.Err = nil
		return "", "", Term{}, err
	}
	if x.GoT == nil {
		return "", "", Term{}, fmt.Errorf("untyped base")
	}
	obj, idx, _ := types.LookupFieldOrMethod(x.GoT, true, nil, loc.Name)
	if obj == nil {
		obj, idx = lookupFieldAnyPkg(x.GoT, loc.Name)
	}
	if obj == nil {
		return "", "", Term{}, fmt.Errorf("no field %s", loc.Name)
	}
	cur := x.T
	t := x.GoT
	for k, i := range idx {
		pt, ok := t.Underlying().(*types.Pointer)
		if !ok {
			return "", "", Term{}, fmt.Errorf("path through non-pointer")
		}
		st := pt.Elem().Underlying().(*types.Struct)
		named := pt.Elem().(*types.Named)
		fld := st.Field(i)
		srt := c.U.sortOfType(fld.Type())
		if k == len(idx)-1 {
			return fieldKey(named, fld), srt, cur, nil
		}
		cur = env.readHeap(fieldKey(named, fld), srt, cur)
		t = fld.Type()
	}
	return "", "", Term{}, fmt.Errorf("empty path")
}

// ---------------------------------------------------------------------------
// standard library models

func constString(v Value) (string, bool) {
	t, ok := v.(Term)
	if !ok {
		return "", false
	}
	s, ok := t.C.(string)
	return s, ok && t.Sort == SStr
}

func sepName(sep string) string {
	switch sep {
	case "/":
		return "slash"
	case ":":
		return "colon"
	}
	return ""
}

func (fr *frame) callStdlib(p *Path, e *ast.CallExpr, name string, recv Value, args []Value) []PV {
	c := p.C
	switch name {
	case "strings.Split":
		s, ok1 := asTerm(args[0])
		sep, ok2 := constString(args[1])
		if ok1 && ok2 && sep != "" {
			c.AxiomsUsed["A1"] = true
			if cs, ok := s.C.(string); ok {
				parts := strings.Split(cs, sep)
				sv := &SliceVal{Known: true}
				for _, x := range parts {
					sv.Elems = append(sv.Elems, mkStr(x))
				}
				sv.Len = mkInt(int64(len(parts)))
				return one(p, sv)
			}
			if sv, ok := c.splitStructured(s, sep); ok {
				return one(p, sv)
			}
			if sn := sepName(sep); sn != "" {
				ln := app(SInt, "nsplit_"+sn, s)
				p.assume(tIntCmp(">=", ln, mkInt(1)))
				return one(p, &SliceVal{Arr: app(SArrIS, "split_"+sn, s), Off: mkInt(0), Len: ln})
			}
		}
	case "strings.Join":
		sv, ok1 := args[0].(*SliceVal)
		sep, ok2 := constString(args[1])
		if ok1 && ok2 && sv.Known {
			c.AxiomsUsed["A1"] = true
			var parts []Term
			for i, el := range sv.Elems {
				if i > 0 {
					parts = append(parts, mkStr(sep))
				}
				parts = append(parts, el)
			}
			if len(parts) == 0 {
				return one(p, mkStr(""))
			}
			return one(p, tConcat(parts...))
		}
	case "fmt.Sprintf":
		if f, ok := constString(args[0]); ok {
			c.AxiomsUsed["A3"] = true
			return fr.sprintf(p, e, f, args[1:])
		}
	case "fmt.Sprint":
		if len(args) == 1 {
			c.AxiomsUsed["A3"] = true
			return fr.sprintfAt(p, e, "%v", args, 0)
		}
	case "fmt.Fprintf":
		// fmt.Fprintf(builder, format, args...): the rendered text is appended to the builder variable
		if len(args) >= 2 {
			if b, ok := args[0].(*BuilderVal); ok {
				if f, ok := constString(args[1]); ok {
					if id, ok := builderIdent(e.Args[0]); ok {
						if obj, ok := fr.info.Uses[id].(*types.Var); ok {
							c.AxiomsUsed["A3"] = true
							c.AxiomsUsed["A4"] = true
							var out []PV
							for _, pv := range fr.sprintfAt(p, e, f, args[2:], 2) {
								t, ok := asTerm(pv.V)
								if !ok {
									out = append(out, pv)
									continue
								}
								pv.P.Vars[obj] = &BuilderVal{Content: tConcat(b.Content, t)}
								out = append(out, PV{pv.P, &TupleVal{[]Value{tStrLen(t), errNil}}})
							}
							return out
						}
					}
				}
			}
		}
	case "strings.Builder.WriteByte", "bytes.Buffer.WriteByte", "strings.Builder.WriteRune", "bytes.Buffer.WriteRune":
		if b, ok := recv.(*BuilderVal); ok && len(args) == 1 {
			if ch, ok := asTerm(args[0]); ok {
				if n, ok := ch.C.(int64); ok && n > 0 && n < 0x110000 {
					if sel, ok := e.Fun.(*ast.SelectorExpr); ok {
						if id, ok := builderIdent(sel.X); ok {
							if obj, ok := fr.info.Uses[id].(*types.Var); ok {
								c.AxiomsUsed["A4"] = true
								p.Vars[obj] = &BuilderVal{Content: tConcat(b.Content, mkStr(string(rune(n))))}
								if strings.HasSuffix(name, "WriteByte") {
									return one(p, errNil)
								}
								return one(p, &TupleVal{[]Value{mkInt(int64(len(string(rune(n))))), errNil}})
							}
						}
					}
				}
			}
		}
	case "github.com/goark/errs.WithContext":
		return one(p, NoOptVal{})
	case "github.com/goark/errs.WithCause":
		if t, ok := asTerm(args[0]); ok && t.Sort == SErr {
			return one(p, CauseVal{t})
		}
	case "github.com/goark/errs.Wrap":
		if t, ok := asTerm(args[0]); ok && t.Sort == SErr {
			c.AxiomsUsed["A2"] = true
			r := t
			for _, o := range args[1:] {
				if cv, ok := o.(CauseVal); ok {
					r = errOr(r, cv.Err)
				}
			}
			if t.C != nil {
				if t.C == errNil.C {
					return one(p, errNil)
				}
				return one(p, r)
			}
			return one(p, tIte(errIsNil(t), errNil, r))
		}
	case "github.com/goark/errs.Is", "errors.Is":
		e1, ok1 := asTerm(args[0])
		e2, ok2 := asTerm(args[1])
		if ok1 && ok2 && e1.Sort == SErr {
			c.AxiomsUsed["A2"] = true
			if sc, ok := e2.C.(string); ok {
				var v int
				fmt.Sscanf(sc, "err:%x", &v)
				for bit := 0; bit < 11; bit++ {
					if v == (1<<11)|(1<<uint(bit)) {
						return one(p, errHas(e1, bit))
					}
				}
			}
		}
	case "math.Pow":
		x, ok1 := asTerm(args[0])
		y, ok2 := asTerm(args[1])
		if ok1 && ok2 {
			c.AxiomsUsed["A5"] = true
			for _, n := range []int{15, 13} {
				if y.S == mkF64Rat(ratInt(n)).S {
					return one(p, app(SF64, fmt.Sprintf("pow%d", n), x))
				}
			}
		}
	case "math.Min":
		x, ok1 := asTerm(args[0])
		y, ok2 := asTerm(args[1])
		if ok1 && ok2 {
			return one(p, app(SF64, "go_min", x, y))
		}
	case "math.Round":
		if x, ok := asTerm(args[0]); ok {
			return one(p, Term{S: "(fp.roundToIntegral RNA " + x.S + ")", Sort: SF64})
		}
	case "math.Floor":
		if x, ok := asTerm(args[0]); ok {
			return one(p, Term{S: "(fp.roundToIntegral RTN " + x.S + ")", Sort: SF64})
		}
	case "math.Ceil":
		if x, ok := asTerm(args[0]); ok {
			return one(p, Term{S: "(fp.roundToIntegral RTP " + x.S + ")", Sort: SF64})
		}
	case "math.Trunc":
		if x, ok := asTerm(args[0]); ok {
			return one(p, Term{S: "(fp.roundToIntegral RTZ " + x.S + ")", Sort: SF64})
		}
	case "math.RoundToEven":
		if x, ok := asTerm(args[0]); ok {
			return one(p, Term{S: "(fp.roundToIntegral RNE " + x.S + ")", Sort: SF64})
		}
	case "math.Abs":
		if x, ok := asTerm(args[0]); ok {
			return one(p, Term{S: "(fp.abs " + x.S + ")", Sort: SF64})
		}
	case "math.Max":
		x, ok1 := asTerm(args[0])
		y, ok2 := asTerm(args[1])
		if ok1 && ok2 {
			return one(p, app(SF64, "go_max", x, y))
		}
	case "strconv.FormatFloat":
		if x, ok := asTerm(args[0]); ok && len(args) == 4 {
			f, _ := asTerm(args[1])
			pr, _ := asTerm(args[2])
			bs, _ := asTerm(args[3])
			if f.C == int64('f') && pr.C == int64(-1) && bs.C == int64(64) {
				c.AxiomsUsed["A5"] = true
				return one(p, app(SStr, "fmt_f64", x))
			}
		}
	case "strings.Builder.WriteString", "bytes.Buffer.WriteString":
		if b, ok := recv.(*BuilderVal); ok {
			if s, ok := asTerm(args[0]); ok {
				nb := &BuilderVal{Content: tConcat(b.Content, s)}
				// rebind the variable holding the builder
				if sel, ok := e.Fun.(*ast.SelectorExpr); ok {
					if id, ok := sel.X.(*ast.Ident); ok {
						if obj, ok := fr.info.Uses[id].(*types.Var); ok {
							p.Vars[obj] = nb
							return one(p, &TupleVal{[]Value{tStrLen(s), errNil}})
						}
					}
				}
			}
		}
	case "io.Copy":
		// (A6) io.Copy(buffer, reader): either the reader delivers its whole content (appended to the buffer) or an error
		if b, ok := args[0].(*BuilderVal); ok {
			if r, ok := asTerm(args[1]); ok && r.Sort == SReader {
				c.AxiomsUsed["A6"] = true
				var obj *types.Var
				if id, ok := builderIdent(e.Args[0]); ok {
					obj, _ = fr.info.Uses[id].(*types.Var)
				}
				okT := app(SBool, "reader_ok", r)
				good := p.clone()
				good.assume(okT)
				bad := p
				bad.assume(tNot(okT))
				var out []PV
				if !good.Dead {
					if obj != nil {
						good.Vars[obj] = &BuilderVal{Content: tConcat(b.Content, app(SStr, "reader_content", r))}
					}
					out = append(out, PV{good, &TupleVal{[]Value{c.fresh("n_copied", SInt), errNil}}})
				}
				if !bad.Dead {
					if obj != nil {
						bad.Vars[obj] = &BuilderVal{Content: tConcat(b.Content, c.fresh("partial_copy", SStr))}
					}
					out = append(out, PV{bad, &TupleVal{[]Value{c.fresh("n_copied", SInt), libErr}}})
				}
				return out
			}
		}
	case "text/template.New":
		c.AxiomsUsed["A6"] = true
		return one(p, &TemplateVal{})
	case "text/template.Template.Parse":
		if _, ok := recv.(*TemplateVal); ok {
			if s, ok := asTerm(args[0]); ok {
				c.AxiomsUsed["A6"] = true
				okT := app(SBool, "tt_parse_ok", s)
				return one(p, &TupleVal{[]Value{&TemplateVal{Src: s, Parsed: true}, tIte(okT, errNil, libErr)}})
			}
		}
	case "text/template.Template.Execute":
		if t, ok := recv.(*TemplateVal); ok && t.Parsed {
			b, ok1 := args[0].(*BuilderVal)
			d, ok2 := asTerm(args[1])
			if ok1 && ok2 && d.Sort == SInt {
				c.AxiomsUsed["A6"] = true
				var obj *types.Var
				if id, ok := builderIdent(e.Args[0]); ok {
					obj, _ = fr.info.Uses[id].(*types.Var)
				}
				okT := app(SBool, "tt_exec_ok", t.Src, d)
				good := p.clone()
				good.assume(okT)
				bad := p
				bad.assume(tNot(okT))
				var out []PV
				if !good.Dead {
					if obj != nil {
						good.Vars[obj] = &BuilderVal{Content: tConcat(b.Content, app(SStr, "tt_exec_out", t.Src, d))}
					}
					out = append(out, PV{good, errNil})
				}
				if !bad.Dead {
					if obj != nil {
						bad.Vars[obj] = &BuilderVal{Content: tConcat(b.Content, app(SStr, "tt_exec_partial", t.Src, d))}
					}
					out = append(out, PV{bad, libErr})
				}
				return out
			}
		}
	case "strings.Builder.String", "bytes.Buffer.String":
		if b, ok := recv.(*BuilderVal); ok {
			return one(p, b.Content)
		}
	}
	c.untranslatable(e.Pos(), "call of unmodelled function "+name)
	// result arity
	return one(p, OpaqueVal{"call " + name})
}

func (fr *frame) sprintf(p *Path, e *ast.CallExpr, format string, args []Value) []PV {
	return fr.sprintfAt(p, e, format, args, 1)
}

// sprintfAt: off = index in e.Args of the first formatted argument (1 for Sprintf, 2 for Fprintf, 0 for Sprint)
func (fr *frame) sprintfAt(p *Path, e *ast.CallExpr, format string, args []Value, off int) []PV {
	c := p.C
	type piece struct {
		lit string
		arg int
	}
	var pieces []piece
	ai := 0
	for i := 0; i < len(format); i++ {
		if format[i] == '%' && i+1 < len(format) {
			switch format[i+1] {
			case 'v', 's':
				pieces = append(pieces, piece{arg: ai})
				ai++
				i++
				continue
			case '%':
				pieces = append(pieces, piece{lit: "%", arg: -1})
				i++
				continue
			default:
				c.untranslatable(e.Pos(), "Sprintf verb %"+string(format[i+1]))
				return one(p, OpaqueVal{"sprintf"})
			}
		}
		pieces = append(pieces, piece{lit: string(format[i]), arg: -1})
	}
	if ai != len(args) {
		c.untranslatable(e.Pos(), "Sprintf argument count")
		return one(p, OpaqueVal{"sprintf"})
	}
	// render arguments (Stringers through their String method), left to right
	acc := []PV{{p, []Term{}}}
	for k, a := range args {
		var next []PV
		for _, st := range acc {
			done := st.V.([]Term)
			if t, ok := asTerm(a); ok && t.Sort == SStr {
				next = append(next, PV{st.P, append(append([]Term(nil), done...), t)})
				continue
			}
			// Stringer
			at := fr.info.Types[e.Args[k+off]].Type
			if iv, ok := a.(*IfaceVal); ok {
				a, at = iv.V, iv.Dyn
				if t, ok := asTerm(a); ok && t.Sort == SStr {
					next = append(next, PV{st.P, append(append([]Term(nil), done...), t)})
					continue
				}
			}
			ms := types.NewMethodSet(at)
			var strM *types.Func
			for i := 0; i < ms.Len(); i++ {
				if ms.At(i).Obj().Name() == "String" {
					strM, _ = ms.At(i).Obj().(*types.Func)
				}
			}
			fi := c.U.FuncByObj[strM]
			if strM == nil || fi == nil {
				c.untranslatable(e.Pos(), "Sprintf argument of type "+at.String())
				return one(p, OpaqueVal{"sprintf"})
			}
			for _, pv := range fr.callRepo(st.P, e, fi, a, nil) {
				t, ok := asTerm(pv.V)
				if !ok {
					c.untranslatable(e.Pos(), "Sprintf Stringer result")
					continue
				}
				next = append(next, PV{pv.P, append(append([]Term(nil), done...), t)})
			}
		}
		acc = next
	}
	var out []PV
	for _, st := range acc {
		rendered := st.V.([]Term)
		var parts []Term
		for _, pc := range pieces {
			if pc.arg < 0 {
				parts = append(parts, mkStr(pc.lit))
			} else {
				parts = append(parts, rendered[pc.arg])
			}
		}
		out = append(out, PV{st.P, tConcat(parts...)})
	}
	return out
}

// ---------------------------------------------------------------------------
// loops over slices

// loopShape: the loop forms that are treated as "for idx, val := range <slice>": a range statement, or the counting loop
// "for i := A; i < len(S); i++ { ... }" (i and S not assigned in the body), which is the range over S[A:] with i = idx + A.
type loopShape struct {
	Node   ast.Stmt
	Body   *ast.BlockStmt
	Key    *types.Var
	Val    *types.Var
	KeyOff int64
}

func (s *loopShape) Pos() token.Pos { return s.Node.Pos() }

func (fr *frame) rangeShape(s *ast.RangeStmt) *loopShape {
	sh := &loopShape{Node: s, Body: s.Body}
	if s.Key != nil {
		if id, ok := s.Key.(*ast.Ident); ok && id.Name != "_" {
			sh.Key, _ = fr.info.Defs[id].(*types.Var)
		}
	}
	if s.Value != nil {
		if id, ok := s.Value.(*ast.Ident); ok && id.Name != "_" {
			sh.Val, _ = fr.info.Defs[id].(*types.Var)
		}
	}
	return sh
}

// forAsRange recognises "for i := A; i < len(S); i++ BODY" with constant A >= 0, S an identifier, and neither i nor S
// assigned (or address-taken) in BODY.
func (fr *frame) forAsRange(s *ast.ForStmt) (*loopShape, ast.Expr, bool) {
	init, ok := s.Init.(*ast.AssignStmt)
	if !ok || init.Tok != token.DEFINE {
		return nil, nil, false
	}
	var nobj *types.Var // "for i, n := A, len(S); i < n; i++": the captured length
	var lenCall *ast.CallExpr
	if len(init.Lhs) == 2 && len(init.Rhs) == 2 {
		nid, ok := init.Lhs[1].(*ast.Ident)
		if !ok {
			return nil, nil, false
		}
		nobj, _ = fr.info.Defs[nid].(*types.Var)
		lenCall, _ = init.Rhs[1].(*ast.CallExpr)
		if nobj == nil || lenCall == nil {
			return nil, nil, false
		}
	} else if len(init.Lhs) != 1 || len(init.Rhs) != 1 {
		return nil, nil, false
	}
	iid, ok := init.Lhs[0].(*ast.Ident)
	if !ok {
		return nil, nil, false
	}
	iobj, _ := fr.info.Defs[iid].(*types.Var)
	tv, ok := fr.info.Types[init.Rhs[0]]
	if iobj == nil || !ok || tv.Value == nil || tv.Value.Kind() != constant.Int {
		return nil, nil, false
	}
	a, exact := constant.Int64Val(tv.Value)
	if !exact || a < 0 {
		return nil, nil, false
	}
	cond, ok := s.Cond.(*ast.BinaryExpr)
	if !ok || cond.Op != token.LSS {
		return nil, nil, false
	}
	cx, ok := cond.X.(*ast.Ident)
	if !ok || fr.info.Uses[cx] != iobj {
		return nil, nil, false
	}
	call, ok := cond.Y.(*ast.CallExpr)
	if nobj != nil {
		yid, isID := cond.Y.(*ast.Ident)
		if !isID || fr.info.Uses[yid] != nobj {
			return nil, nil, false
		}
		call, ok = lenCall, true
	}
	if !ok || len(call.Args) != 1 {
		return nil, nil, false
	}
	if fid, ok := call.Fun.(*ast.Ident); !ok || fid.Name != "len" {
		return nil, nil, false
	} else if _, isB := fr.info.Uses[fid].(*types.Builtin); !isB {
		return nil, nil, false
	}
	sid, ok := call.Args[0].(*ast.Ident)
	if !ok {
		return nil, nil, false
	}
	sobj, _ := fr.info.Uses[sid].(*types.Var)
	if sobj == nil {
		return nil, nil, false
	}
	switch post := s.Post.(type) {
	case *ast.IncDecStmt:
		pid, ok := post.X.(*ast.Ident)
		if !ok || post.Tok != token.INC || fr.info.Uses[pid] != iobj {
			return nil, nil, false
		}
	case *ast.AssignStmt:
		if post.Tok != token.ADD_ASSIGN || len(post.Lhs) != 1 || len(post.Rhs) != 1 {
			return nil, nil, false
		}
		pid, ok := post.Lhs[0].(*ast.Ident)
		ptv := fr.info.Types[post.Rhs[0]]
		if !ok || fr.info.Uses[pid] != iobj || ptv.Value == nil || ptv.Value.Kind() != constant.Int {
			return nil, nil, false
		}
		if one, exact := constant.Int64Val(ptv.Value); !exact || one != 1 {
			return nil, nil, false
		}
	default:
		return nil, nil, false
	}
	bad := false
	ast.Inspect(s.Body, func(n ast.Node) bool {
		switch x := n.(type) {
		case *ast.AssignStmt:
			for _, l := range x.Lhs {
				if id, ok := l.(*ast.Ident); ok && (fr.info.Uses[id] == iobj || fr.info.Uses[id] == sobj || (nobj != nil && fr.info.Uses[id] == nobj)) {
					bad = true
				}
				if ix, ok := l.(*ast.IndexExpr); ok {
					if id, ok := ix.X.(*ast.Ident); ok && fr.info.Uses[id] == sobj {
						bad = true
					}
				}
			}
		case *ast.IncDecStmt:
			if id, ok := x.X.(*ast.Ident); ok && (fr.info.Uses[id] == iobj || fr.info.Uses[id] == sobj) {
				bad = true
			}
		case *ast.UnaryExpr:
			if x.Op == token.AND {
				if id, ok := x.X.(*ast.Ident); ok && (fr.info.Uses[id] == iobj || fr.info.Uses[id] == sobj) {
					bad = true
				}
			}
		case *ast.FuncLit, *ast.GoStmt, *ast.DeferStmt:
			bad = true
		case *ast.BranchStmt:
			if x.Label != nil || x.Tok == token.GOTO {
				bad = true
			}
		}
		return true
	})
	if bad {
		return nil, nil, false
	}
	return &loopShape{Node: s, Body: s.Body, Key: iobj, KeyOff: a}, sid, true
}

func (fr *frame) execFor(p *Path, s *ast.ForStmt) []*Path {
	c := p.C
	sh, sexpr, ok := fr.forAsRange(s)
	if !ok {
		if ps, ok := fr.forConstRange(p, s); ok {
			return ps
		}
		c.untranslatable(s.Pos(), "statement *ast.ForStmt (only 'for i := A; i < len(S); i++' over an unmodified slice and counting loops between constants are in the subset)")
		return []*Path{p}
	}
	var out []*Path
	for _, xv := range fr.eval(p, sexpr) {
		q := xv.P
		switch x := xv.V.(type) {
		case *SliceVal:
			lo := mkInt(sh.KeyOff)
			if x.Known {
				if int(sh.KeyOff) >= len(x.Elems) {
					out = append(out, q)
					continue
				}
				out = append(out, fr.rangeSlice(q, sh, &SliceVal{Known: true, Elems: x.Elems[sh.KeyOff:], Len: mkInt(int64(len(x.Elems)) - sh.KeyOff)})...)
				continue
			}
			if sh.KeyOff == 0 {
				out = append(out, fr.rangeSlice(q, sh, x)...)
				continue
			}
			// fewer than A elements: the loop does not run
			skip := q.clone()
			skip.assume(tIntCmp("<", x.Len, lo))
			if !skip.Dead {
				out = append(out, skip)
			}
			q.assume(tIntCmp(">=", x.Len, lo))
			if !q.Dead {
				out = append(out, fr.rangeSlice(q, sh, &SliceVal{Arr: x.Arr, Off: tIntBin("+", x.Off, lo), Len: tIntBin("-", x.Len, lo)})...)
			}
		case *VariadicVal:
			if x.Symbolic {
				c.untranslatable(s.Pos(), "loop over symbolic variadic parameter")
				out = append(out, q)
				continue
			}
			ps := []*Path{q}
			for i := int(sh.KeyOff); i < len(x.Elems); i++ {
				var next []*Path
				for _, r := range ps {
					if r.Brk {
						next = append(next, r)
						continue
					}
					r.Vars[sh.Key] = mkInt(int64(i))
					next = append(next, clearCont(fr.execStmt(r, s.Body))...)
				}
				ps = next
			}
			out = append(out, clearBrk(ps)...)
		case *ListVal:
			ps := []*Path{q}
			for i := int(sh.KeyOff); i < len(x.Elems); i++ {
				var next []*Path
				for _, r := range ps {
					if r.Brk {
						next = append(next, r)
						continue
					}
					r.Vars[sh.Key] = mkInt(int64(i))
					next = append(next, clearCont(fr.execStmt(r, s.Body))...)
				}
				ps = next
			}
			out = append(out, clearBrk(ps)...)
		default:
			c.untranslatable(s.Pos(), fmt.Sprintf("counting loop over %T", xv.V))
			out = append(out, q)
		}
	}
	return out
}

func (fr *frame) rangeSlice(p *Path, s *loopShape, sv *SliceVal) []*Path {
	c := p.C
	bindVal := func(q *Path, idx Term, val Term) {
		if s.Key != nil {
			if s.KeyOff != 0 {
				q.Vars[s.Key] = c.norm(tIntBin("+", idx, mkInt(s.KeyOff)))
			} else {
				q.Vars[s.Key] = idx
			}
		}
		if s.Val != nil {
			q.Vars[s.Val] = val
		}
	}
	if sv.Known { // finite known list: unroll exactly
		ps := []*Path{p}
		for i, el := range sv.Elems {
			var next []*Path
			for _, q := range ps {
				if q.Brk {
					next = append(next, q) // left the loop
					continue
				}
				bindVal(q, mkInt(int64(i)), el)
				next = append(next, clearCont(fr.execStmt(q, s.Body))...)
			}
			ps = next
		}
		return clearBrk(ps)
	}
	if fr.depth != 0 || fr.fi.Contract == nil {
		c.untranslatable(s.Pos(), "loop over symbolic slice outside a function under contract")
		return []*Path{p}
	}
	ord := loopOrdinal(fr.fi.Decl, s.Node)
	ls := fr.fi.Contract.Loops[ord]
	if ls == nil {
		c.untranslatable(s.Pos(), fmt.Sprintf("loop %d has no invariant", ord))
		return []*Path{p}
	}
	where := fmt.Sprintf("%s#loop%d", fr.fi.Key, ord)
	evalInv := func(q *Path, i Term, assume bool, kind string) {
		env := fr.specEnvAtPoint(q, s.Body.Pos())
		env.Vars[ls.Index] = SV{T: i}
		env.Vars["elems"] = SV{Slice: sv, T: Term{S: "slice", Sort: "Slice"}}
		// loopvarN: the N-th variable declared outside the loop and assigned in its body (name-independent)
		for k, obj := range loopCarriedVars(fr.info, fr.fi.Decl, s.Node, s.Body) {
			if v, ok := q.Vars[obj]; ok {
				env.Vars[fmt.Sprintf("loopvar%d", k)] = valueToSV(v, obj.Type())
			}
		}
		for k, inv := range ls.Invariants {
			t := env.evalBool(inv.Expr)
			if env.Err != nil {
				c.U.problem("%s invariant %d: %v", where, k, env.Err)
				env.Err = nil
				continue
			}
			if assume {
				q.assume(t)
			} else {
				q.oblig(kind, fmt.Sprintf("%s:%s:inv%d", where, kind, k), t, s.Pos(), append([]string{"loop"}, inv.Labels...)...)
			}
		}
	}
	// 1. initialisation
	evalInv(p, mkInt(0), false, "loopinit")
	// 2. havoc
	assigned := notExitOnly(fr.info, s.Body, assignedOuterVars(fr.info, s.Body))
	havoc := func(q *Path) {
		for _, obj := range assigned {
			if old, ok := q.Vars[obj]; ok {
				if ot, ok := old.(Term); ok {
					q.Vars[obj] = c.fresh("lv_"+obj.Name(), ot.Sort)
				} else {
					c.untranslatable(s.Pos(), "loop assigns unmodelled variable "+obj.Name())
				}
			}
		}
		env := fr.specEnvAtPoint(q, s.Body.Pos())
		for _, loc := range fr.fi.Contract.Modifies {
			fr.havocLoc(q, env, loc, where)
		}
	}
	// 3. preservation
	var broken []*Path
	body := p.clone()
	havoc(body)
	i := c.fresh("i", SInt)
	body.assume(tIntCmp(">=", i, mkInt(0)))
	body.assume(tIntCmp("<", i, sv.Len))
	evalInv(body, i, true, "")
	headHeap := map[string]Term{}
	for k, v := range body.Heap {
		headHeap[k] = v
	}
	bindVal(body, i, sv.at(c, i))
	if !body.Dead {
		for _, q := range fr.execStmt(body, s.Body) {
			if q.Dead {
				continue
			}
			if q.Brk {
				// the iteration leaves the loop: the path goes on after the loop with the state it has (like a return from
				// inside the loop, nothing is claimed about later elements)
				q.Brk, q.Cont = false, false
				broken = append(broken, q)
				continue
			}
			q.Cont = false
			evalInv(q, tIntBin("+", i, mkInt(1)), false, "looppres")
		}
	}
	// 4. exit
	exit := p
	havoc(exit)
	evalInv(exit, sv.Len, true, "")
	if exit.Dead {
		return broken
	}
	return append([]*Path{exit}, broken...)
}

func assignedOuterVars(info *types.Info, body *ast.BlockStmt) []*types.Var {
	seen := map[*types.Var]bool{}
	var out []*types.Var
	ast.Inspect(body, func(n ast.Node) bool {
		as, ok := n.(*ast.AssignStmt)
		if !ok {
			return true
		}
		for _, l := range as.Lhs {
			id, ok := l.(*ast.Ident)
			if !ok {
				continue
			}
			if obj, ok := info.Uses[id].(*types.Var); ok && !seen[obj] {
				if obj.Pos() < body.Pos() || obj.Pos() > body.End() {
					seen[obj] = true
					out = append(out, obj)
				}
			}
		}
		return true
	})
	return out
}

func ratInt(n int) *big.Rat { return new(big.Rat).SetInt64(int64(n)) }

var _ = constant.MakeInt64

// splitStructured applies strings.Split to a concatenation term whose non-literal pieces are known to be free of the
// separator (applications of prelude functions all of whose string results are separator-free, e.g. code_v2_AV).
func (c *Ctx) splitStructured(s Term, sep string) (*SliceVal, bool) {
	var parts []string
	switch {
	case strings.HasPrefix(s.S, "(str.++ "):
		parts = splitTop(s.S[8 : len(s.S)-1])
	case strings.HasPrefix(s.S, "("):
		parts = []string{s.S}
	default:
		return nil, false
	}
	var elems [][]Term
	cur := []Term{}
	for _, pt := range parts {
		if strings.HasPrefix(pt, "\"") {
			lit := decodeSMTString(strings.ReplaceAll(pt[1:len(pt)-1], "\"\"", "\""))
			pieces := strings.Split(lit, sep)
			for i, pc := range pieces {
				if i > 0 {
					elems = append(elems, cur)
					cur = []Term{}
				}
				if pc != "" {
					cur = append(cur, mkStr(pc))
				}
			}
			continue
		}
		if !c.sepFreeTerm(pt, sep) {
			return nil, false
		}
		cur = append(cur, Term{S: pt, Sort: SStr})
	}
	elems = append(elems, cur)
	sv := &SliceVal{Known: true}
	for _, e := range elems {
		if len(e) == 0 {
			sv.Elems = append(sv.Elems, mkStr(""))
		} else {
			sv.Elems = append(sv.Elems, tConcat(e...))
		}
	}
	sv.Len = mkInt(int64(len(sv.Elems)))
	c.AxiomsUsed["A1"] = true
	return sv, true
}

// sepFreeTerm: the term is an application of a prelude function whose every string literal result lacks the separator.
func (c *Ctx) sepFreeTerm(t, sep string) bool {
	if !strings.HasPrefix(t, "(") {
		return false
	}
	items := splitTop(t[1 : len(t)-1])
	if len(items) == 0 {
		return false
	}
	d, ok := c.U.SpecDefs[items[0]]
	if !ok || d.Result != SStr {
		return false
	}
	okAll := true
	var walk func(x *SX)
	walk = func(x *SX) {
		if x.List == nil {
			if x.IsStr && strings.Contains(decodeSMTString(x.Atom), sep) {
				okAll = false
			}
			return
		}
		if len(x.List) > 0 && x.List[0].List == nil {
			switch x.List[0].Atom {
			case "ite", "=", "and", "or", "not":
			default:
				if _, isParam := map[string]bool{}[x.List[0].Atom]; !isParam && len(x.List) > 1 {
					okAll = false // calls other functions: not analysed
				}
			}
		}
		for _, ch := range x.List {
			walk(ch)
		}
	}
	walk(d.Body)
	return okAll
}

// mentionsGhost: the clause speaks about a call-site ghost of the callee (internal to the callee's own proof)
func mentionsGhost(n *Node, ct *Contract) bool {
	if n == nil || len(ct.CallGhosts) == 0 {
		return false
	}
	if n.Op == "ident" {
		return ct.ghostSpec(n.Name) != nil
	}
	for _, a := range n.Args {
		if mentionsGhost(a, ct) {
			return true
		}
	}
	return false
}

// builderIdent: buf or &buf
func builderIdent(e ast.Expr) (*ast.Ident, bool) {
	e = ast.Unparen(e)
	if u, ok := e.(*ast.UnaryExpr); ok && u.Op == token.AND {
		e = ast.Unparen(u.X)
	}
	id, ok := e.(*ast.Ident)
	return id, ok
}

// forConstRange: "for k := C1; k <= C2; k++" / "k < C2" with constant bounds (at most 64 iterations) and k not assigned in
// the body: unrolled exactly.
func (fr *frame) forConstRange(p *Path, s *ast.ForStmt) ([]*Path, bool) {
	init, ok := s.Init.(*ast.AssignStmt)
	if !ok || init.Tok != token.DEFINE || len(init.Lhs) != 1 || len(init.Rhs) != 1 {
		return nil, false
	}
	kid, ok := init.Lhs[0].(*ast.Ident)
	if !ok {
		return nil, false
	}
	kobj, _ := fr.info.Defs[kid].(*types.Var)
	lo, ok1 := constInt(fr.info, init.Rhs[0])
	cond, ok2 := s.Cond.(*ast.BinaryExpr)
	if kobj == nil || !ok1 || !ok2 || (cond.Op != token.LEQ && cond.Op != token.LSS) {
		return nil, false
	}
	cx, ok := cond.X.(*ast.Ident)
	hi, ok3 := constInt(fr.info, cond.Y)
	if !ok || fr.info.Uses[cx] != kobj || !ok3 {
		return nil, false
	}
	if cond.Op == token.LSS {
		hi--
	}
	post, ok := s.Post.(*ast.IncDecStmt)
	if !ok || post.Tok != token.INC {
		return nil, false
	}
	if pid, ok := post.X.(*ast.Ident); !ok || fr.info.Uses[pid] != kobj {
		return nil, false
	}
	if hi-lo > 64 {
		return nil, false
	}
	bad := false
	ast.Inspect(s.Body, func(n ast.Node) bool {
		switch x := n.(type) {
		case *ast.AssignStmt:
			for _, l := range x.Lhs {
				if id, ok := l.(*ast.Ident); ok && fr.info.Uses[id] == kobj {
					bad = true
				}
			}
		case *ast.IncDecStmt:
			if id, ok := x.X.(*ast.Ident); ok && fr.info.Uses[id] == kobj {
				bad = true
			}
		case *ast.UnaryExpr:
			if id, ok := x.X.(*ast.Ident); ok && x.Op == token.AND && fr.info.Uses[id] == kobj {
				bad = true
			}
		case *ast.FuncLit, *ast.GoStmt, *ast.DeferStmt:
			bad = true
		case *ast.BranchStmt:
			if x.Label != nil || x.Tok == token.GOTO {
				bad = true
			}
		}
		return true
	})
	if bad {
		return nil, false
	}
	ps := []*Path{p}
	for k := lo; k <= hi; k++ {
		var next []*Path
		for _, r := range ps {
			if r.Brk {
				next = append(next, r)
				continue
			}
			r.Vars[kobj] = mkInt(k)
			next = append(next, clearCont(fr.execStmt(r, s.Body))...)
		}
		ps = next
	}
	return clearBrk(ps), true
}

func constInt(info *types.Info, e ast.Expr) (int64, bool) {
	tv, ok := info.Types[e]
	if !ok || tv.Value == nil || tv.Value.Kind() != constant.Int {
		return 0, false
	}
	return constant.Int64Val(tv.Value)
}

// loopCarriedVars: the outer variables assigned in the loop body that carry a value from one iteration to the next or
// out of the loop. A scratch variable that every iteration overwrites before reading it, and that the code after the loop
// overwrites before reading it (the classic re-used "err"), is not loop-carried; the invariants' loopvarK numbering skips
// it, so that "if err := f(); err != nil" and "err = f(); if err != nil" with an outer err are the same loop to a contract.
func loopCarriedVars(info *types.Info, fd *ast.FuncDecl, loop ast.Stmt, body *ast.BlockStmt) []*types.Var {
	all := notExitOnly(info, body, assignedOuterVars(info, body))
	var out []*types.Var
	for _, v := range all {
		if !(writtenFirst(info, v, body.List) && deadAfter(info, fd, loop, v)) {
			out = append(out, v)
		}
	}
	return out
}

func mentions(info *types.Info, n ast.Node, v *types.Var) bool {
	found := false
	if n == nil {
		return false
	}
	ast.Inspect(n, func(x ast.Node) bool {
		if id, ok := x.(*ast.Ident); ok && (info.Uses[id] == v || info.Defs[id] == v) {
			found = true
		}
		return true
	})
	return found
}

// plainWrite: st is "v = e" / "v, x = e..." / "if v = e; ..." (as an init) with v not read on the right-hand side
func plainWrite(info *types.Info, st ast.Stmt, v *types.Var) bool {
	as, ok := st.(*ast.AssignStmt)
	if !ok || as.Tok != token.ASSIGN {
		return false
	}
	isLhs := false
	for _, l := range as.Lhs {
		if id, ok := l.(*ast.Ident); ok && info.Uses[id] == v {
			isLhs = true
		} else if mentions(info, l, v) {
			return false
		}
	}
	for _, r := range as.Rhs {
		if mentions(info, r, v) {
			return false
		}
	}
	return isLhs
}

// writtenFirst: in the statement list, the first statement that mentions v writes it without reading it
func writtenFirst(info *types.Info, v *types.Var, list []ast.Stmt) bool {
	for _, st := range list {
		if !mentions(info, st, v) {
			continue
		}
		if plainWrite(info, st, v) {
			return true
		}
		if is, ok := st.(*ast.IfStmt); ok && is.Init != nil && plainWrite(info, is.Init, v) {
			return true
		}
		return false
	}
	return false
}

// deadAfter: in the block that contains the loop, the statements after it overwrite v before reading it or never mention it
func deadAfter(info *types.Info, fd *ast.FuncDecl, loop ast.Stmt, v *types.Var) bool {
	var rest []ast.Stmt
	found := false
	ast.Inspect(fd.Body, func(n ast.Node) bool {
		if b, ok := n.(*ast.BlockStmt); ok && !found {
			for i, st := range b.List {
				if st == loop {
					rest = b.List[i+1:]
					found = true
					// the loop must sit directly in the function body: otherwise code after the enclosing statement could read v
					if b != fd.Body {
						rest = nil
						found = false
						return false
					}
				}
			}
		}
		return !found
	})
	if !found {
		return false
	}
	for _, st := range rest {
		if !mentions(info, st, v) {
			continue
		}
		if plainWrite(info, st, v) {
			return true
		}
		if is, ok := st.(*ast.IfStmt); ok && is.Init != nil && plainWrite(info, is.Init, v) {
			return true
		}
		return false
	}
	return true
}

// callFuncValue: a call through a function value: a closure, a named function or a method value
func (fr *frame) callFuncValue(p *Path, e *ast.CallExpr, fv Value, what string) []PV {
	switch f := fv.(type) {
	case *ClosureVal:
		return fr.callClosure(p, e, f, what)
	case *FuncRefVal:
		var out []PV
		for _, a := range fr.evalExprs(p, e.Args) {
			q := a[0].(*Path)
			args := a[1].([]Value)
			var recv Value
			if f.HasRecv {
				recv = f.Recv
			}
			out = append(out, fr.dispatchCall(q, e, f.Fn, recv, args)...)
		}
		return out
	}
	return fr.callClosure(p, e, nil, what)
}

// notExitOnly drops the variables that the body assigns only on the way out of the loop: every assignment to them is
// followed, in its own block, by nothing but further plain assignments and then an unlabelled break or a return. Such a
// variable still has its pre-loop value at every loop head and after a normal end of the loop ("fatalErr, aborted = err,
// true; break"), so it is neither havocked nor counted as a loop variable.
func notExitOnly(info *types.Info, body *ast.BlockStmt, vars []*types.Var) []*types.Var {
	var out []*types.Var
	for _, v := range vars {
		if !exitOnly(info, body.List, v) {
			out = append(out, v)
		}
	}
	return out
}

func exitOnly(info *types.Info, list []ast.Stmt, v *types.Var) bool {
	ok := true
	var scan func(list []ast.Stmt)
	assigns := func(st ast.Stmt) bool {
		as, isAs := st.(*ast.AssignStmt)
		if !isAs {
			return false
		}
		for _, l := range as.Lhs {
			if id, isID := l.(*ast.Ident); isID && info.Uses[id] == v {
				return true
			}
		}
		return false
	}
	scan = func(list []ast.Stmt) {
		for i, st := range list {
			if assigns(st) {
				leaves := false
				for _, nx := range list[i+1:] {
					if b, isB := nx.(*ast.BranchStmt); isB && b.Tok == token.BREAK && b.Label == nil {
						leaves = true
						break
					}
					if _, isR := nx.(*ast.ReturnStmt); isR {
						leaves = true
						break
					}
					if _, isAs := nx.(*ast.AssignStmt); !isAs {
						break
					}
				}
				if !leaves {
					ok = false
				}
				continue
			}
			switch x := st.(type) {
			case *ast.BlockStmt:
				scan(x.List)
			case *ast.IfStmt:
				if x.Init != nil && assigns(x.Init) {
					ok = false
				}
				scan(x.Body.List)
				for e := x.Else; e != nil; {
					switch ee := e.(type) {
					case *ast.BlockStmt:
						scan(ee.List)
						e = nil
					case *ast.IfStmt:
						if ee.Init != nil && assigns(ee.Init) {
							ok = false
						}
						scan(ee.Body.List)
						e = ee.Else
					default:
						e = nil
					}
				}
			case *ast.SwitchStmt:
				// a break inside a switch leaves the switch, not the loop: assignments in there do not qualify
				if mentions(info, x, v) {
					ast.Inspect(x, func(n ast.Node) bool {
						if s2, isS := n.(ast.Stmt); isS && assigns(s2) {
							ok = false
						}
						return true
					})
				}
			case *ast.ForStmt, *ast.RangeStmt:
				if mentions(info, x, v) {
					ast.Inspect(x, func(n ast.Node) bool {
						if s2, isS := n.(ast.Stmt); isS && assigns(s2) {
							ok = false
						}
						return true
					})
				}
			}
		}
	}
	scan(list)
	return ok
}

// allocZero: a fresh object of a repository struct type with all fields at their zero values
func allocZero(p *Path, named *types.Named) (Term, bool) {
	c := p.C
	ut, ok := named.Underlying().(*types.Struct)
	if !ok || named.Obj().Pkg() == nil {
		return Term{}, false
	}
	if _, inRepo := pkgAlias[named.Obj().Pkg().Path()]; !inRepo {
		return Term{}, false
	}
	for j := 0; j < ut.NumFields(); j++ {
		if c.U.sortOfType(ut.Field(j).Type()) == SOpaque {
			return Term{}, false
		}
	}
	r := p.alloc(named.Obj().Name())
	for j := 0; j < ut.NumFields(); j++ {
		f := ut.Field(j)
		srt := c.U.sortOfType(f.Type())
		p.writeField(fieldKey(named, f), srt, r, zeroTerm(srt))
	}
	return r, true
}
